#!/usr/bin/env python3
"""record_seed.py <seed out dir> <id> <property> <confirm log> --change TEXT --needs TEXT [--detected-by C03,C12] [--note TEXT]
Copies patch.diff, demo/, notes.md of a confirmed seeded change to /verif/seeded/<id>/ and writes meta.json."""
import argparse
import json
import os
import shutil

ap = argparse.ArgumentParser()
ap.add_argument("src")
ap.add_argument("id")
ap.add_argument("prop")
ap.add_argument("confirm_log")
ap.add_argument("--change", required=True)
ap.add_argument("--needs", required=True)
ap.add_argument("--detected-by", default="")
ap.add_argument("--note", default="")
ap.add_argument("--confirmed", default="yes")
a = ap.parse_args()
dst = os.path.join("/verif/seeded", a.id)
os.makedirs(dst, exist_ok=True)
shutil.copy(os.path.join(a.src, "patch.diff"), os.path.join(dst, "patch.diff"))
if os.path.isdir(os.path.join(a.src, "demo")):
    shutil.rmtree(os.path.join(dst, "demo"), ignore_errors=True)
    shutil.copytree(os.path.join(a.src, "demo"), os.path.join(dst, "demo"))
if os.path.exists(os.path.join(a.src, "notes.md")):
    shutil.copy(os.path.join(a.src, "notes.md"), os.path.join(dst, "notes.md"))
log = [l.rstrip() for l in open(a.confirm_log)] if os.path.exists(a.confirm_log) else []
det = [x for x in a.detected_by.split(",") if x]
meta = {
    "id": a.id, "property": a.prop, "change": a.change, "needs_to_manifest": a.needs,
    "confirmed_by_me": {
        "tool": "tools/confirm_seed.sh (scratch worktree /tmp/confirm-wt of /repo HEAD: patch applies, unedited suite passes with --retries 3, demo fails "
                "with the patch and passes without it)" if a.confirmed == "yes" else a.confirmed,
        "log": log},
    "detected_by": det, "detected": bool(det),
    "evaluated_with": "tools/eval_seed.sh <seed dir> <check ids> (git apply on /repo, ./check <id> --tier quick, git checkout -- .)",
    "detection_note": a.note,
}
json.dump(meta, open(os.path.join(dst, "meta.json"), "w"), indent=1)
print("recorded", dst)
