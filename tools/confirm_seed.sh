#!/bin/bash
# Confirm a seeded defect in a scratch worktree of /repo (HEAD): usage: confirm_seed.sh <seed-out-dir> <log>
# 1) patch applies; 2) the unedited suite passes with it (the known-flaky wall-clock tests are retried); 3) the demo
# fails with the patch and 4) passes without it.  Exit 0 = confirmed.
set -u
SD=$1; LOG=$2
WT=/tmp/confirm-wt
export CARGO_NET_OFFLINE=true
if [ ! -d $WT ]; then git -C /repo worktree add --detach $WT HEAD >/dev/null 2>&1 || exit 3; fi
cd $WT && git checkout -q --detach $(git -C /repo rev-parse HEAD) 2>/dev/null; git checkout -q -- . ; git clean -fdq -e target
echo "=== $SD" > $LOG
git apply --check $SD/patch.diff >> $LOG 2>&1 || { echo "PATCH-DOES-NOT-APPLY" >> $LOG; exit 4; }
git apply $SD/patch.diff
# suite with the patch
cargo nextest run --workspace --no-fail-fast --test-threads 8 --offline --retries 3 > $LOG.suite 2>&1
SUITE=$(grep -E "^\s+Summary" $LOG.suite | tail -1)
echo "suite-with-patch: $SUITE" >> $LOG
grep -q " failed" <<< "$SUITE" && { echo "SUITE-FAILS-WITH-PATCH" >> $LOG; grep -E "^\s+(FAIL|TRY . FAIL)" $LOG.suite | sort -u | head >> $LOG; }
# install demo
DEMOTESTS=""
for f in $SD/demo/*.rs; do
  P=$(grep -m1 -oE "nexosim/(tests|src)/[A-Za-z0-9_/]+\.rs" $f)
  [ -z "$P" ] && continue
  mkdir -p $(dirname $P); cp $f $P
  case $P in nexosim/tests/*) DEMOTESTS="$DEMOTESTS --test $(basename $P .rs)";; esac
done
[ -f $SD/demo/register_in_tests_rs.diff ] && git apply $SD/demo/register_in_tests_rs.diff
FLAGS=""; FILTER=""
if grep -q "cfg(nexosim_loom)" $SD/demo/*.rs 2>/dev/null && ! grep -q "not(nexosim_loom)" $SD/demo/*.rs 2>/dev/null; then FLAGS="--cfg nexosim_loom"; FILTER="-- $(basename $(ls $SD/demo/*.rs | head -1) .rs | cut -c1-6)"; fi
if [ -n "$DEMOTESTS" ]; then CMD="cargo test --offline -p nexosim $DEMOTESTS --release"; else
  T=$(basename $(ls $SD/demo/*.rs | head -1) .rs); CMD="cargo test --offline -p nexosim --lib --release $T"; fi
echo "demo cmd: RUSTFLAGS='$FLAGS' $CMD" >> $LOG
RUSTFLAGS="$FLAGS" timeout 1500 $CMD $FILTER > $LOG.demo1 2>&1; R1=$?
echo "demo-with-patch: rc=$R1 $(grep -E '^test result' $LOG.demo1 | tr '\n' ' ')" >> $LOG
git apply -R $SD/patch.diff
RUSTFLAGS="$FLAGS" timeout 1500 $CMD $FILTER > $LOG.demo2 2>&1; R2=$?
echo "demo-without-patch: rc=$R2 $(grep -E '^test result' $LOG.demo2 | tr '\n' ' ')" >> $LOG
git checkout -q -- . ; git clean -fdq -e target
if [ $R1 -ne 0 ] && [ $R2 -eq 0 ]; then echo CONFIRMED >> $LOG; exit 0; fi
echo NOT-CONFIRMED >> $LOG; exit 1
