#!/bin/bash
# eval_seed.sh <seed dir> <check id>...   applies the seed patch to /repo, runs the quick checks, restores /repo.
SD=$1; shift
P=$SD/patch.diff; [ -f $SD/patch.rebased.diff ] && P=$SD/patch.rebased.diff
cd /repo || exit 2
git apply --check $P 2>/dev/null || { echo "$SD: PATCH-DOES-NOT-APPLY"; exit 3; }
git apply $P
# evidence files must describe /repo itself, not a mutant: keep them aside while the mutant is checked
rm -rf /var/tmp/verif-evidence-keep && cp -r /verif/evidence /var/tmp/verif-evidence-keep
for c in "$@"; do
  out=$(cd /verif && ./check $c --tier quick 2>&1); rc=$?
  echo "$SD $c rc=$rc $(echo "$out" | grep -c '^VIOLATION') violation line(s): $(echo "$out" | grep -m2 "^\[$c\] $c:\|^\[$c\] C[0-9]*:\|FAILED:" | cut -c1-160 | tr '\n' '|')"
done
git checkout -- . ; git clean -fdq nexosim/tests 2>/dev/null
rm -rf /verif/evidence && mv /var/tmp/verif-evidence-keep /verif/evidence
