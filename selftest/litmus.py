"""Self-test of the AXC11 encoding on classic litmus shapes (allowed/forbidden under RC11 release/acquire)."""
import sys
import z3
sys.path.insert(0, "/verif")
from vlib.mirse.axc11 import Ev, Execution

BV = lambda x: z3.BitVecVal(x, 32)


def R(t, i, loc, o, name):
    return Ev(t, i, "R", loc, o, rval=z3.BitVec(name, 32))


def W(t, i, loc, o, v):
    return Ev(t, i, "W", loc, o, wval=BV(v))


def F(t, i, o):
    return Ev(t, i, "F", None, o)


def U(t, i, loc, o, name, add):
    r = z3.BitVec(name, 32)
    return Ev(t, i, "U", loc, o, rval=r, wval=r + add)


def run(name, threads, cond, expect):
    init = [(0, BV(0)), (1, BV(0))]
    ex = Execution([dict(events=t, pc=[]) for t in threads], init)
    ex.s.add(cond)
    r = ex.s.check()
    ok = (r == z3.sat) == expect
    print(f"{'ok  ' if ok else 'FAIL'} {name}: {'allowed' if r == z3.sat else 'forbidden'} (expected {'allowed' if expect else 'forbidden'})")
    return ok


def v(n):
    return z3.BitVec(n, 32)


def main():
    ok = True
    # MP with release/acquire: r1 == 1 and r2 == 0 forbidden
    ok &= run("MP+rel+acq", [[W(0, 0, 0, "Relaxed", 1), W(0, 1, 1, "Release", 1)], [R(1, 0, 1, "Acquire", "a"), R(1, 1, 0, "Relaxed", "b")]],
              z3.And(v("a") == 1, v("b") == 0), False)
    # MP relaxed: allowed
    ok &= run("MP+rlx", [[W(0, 0, 0, "Relaxed", 1), W(0, 1, 1, "Relaxed", 1)], [R(1, 0, 1, "Relaxed", "a"), R(1, 1, 0, "Relaxed", "b")]],
              z3.And(v("a") == 1, v("b") == 0), True)
    # MP with fences: forbidden
    ok &= run("MP+fences", [[W(0, 0, 0, "Relaxed", 1), F(0, 1, "Release"), W(0, 2, 1, "Relaxed", 1)],
                            [R(1, 0, 1, "Relaxed", "a"), F(1, 1, "Acquire"), R(1, 2, 0, "Relaxed", "b")]],
              z3.And(v("a") == 1, v("b") == 0), False)
    # MP with only the release fence: allowed
    ok &= run("MP+relfence-only", [[W(0, 0, 0, "Relaxed", 1), F(0, 1, "Release"), W(0, 2, 1, "Relaxed", 1)],
                                   [R(1, 0, 1, "Relaxed", "a"), R(1, 1, 0, "Relaxed", "b")]],
              z3.And(v("a") == 1, v("b") == 0), True)
    # SB: both read 0 allowed under rel/acq
    ok &= run("SB+rel+acq", [[W(0, 0, 0, "Release", 1), R(0, 1, 1, "Acquire", "a")], [W(1, 0, 1, "Release", 1), R(1, 1, 0, "Acquire", "b")]],
              z3.And(v("a") == 0, v("b") == 0), True)
    # LB: both read 1 forbidden by acyclic(po U rf)
    ok &= run("LB+rlx", [[R(0, 0, 0, "Relaxed", "a"), W(0, 1, 1, "Relaxed", 1)], [R(1, 0, 1, "Relaxed", "b"), W(1, 1, 0, "Relaxed", 1)]],
              z3.And(v("a") == 1, v("b") == 1), False)
    # CoRR: a thread cannot read new then old
    ok &= run("CoRR", [[W(0, 0, 0, "Relaxed", 1), W(0, 1, 0, "Relaxed", 2)], [R(1, 0, 0, "Relaxed", "a"), R(1, 1, 0, "Relaxed", "b")]],
              z3.And(v("a") == 2, v("b") == 1), False)
    ok &= run("CoRR-ok", [[W(0, 0, 0, "Relaxed", 1), W(0, 1, 0, "Relaxed", 2)], [R(1, 0, 0, "Relaxed", "a"), R(1, 1, 0, "Relaxed", "b")]],
              z3.And(v("a") == 1, v("b") == 2), True)
    # release sequence through an RMW: T0 x=1; y.store(1,rel)   T1 y.fetch_add(1, rlx)   T2 r=y.load(acq)==2 ; x==0 forbidden
    ok &= run("relseq-rmw", [[W(0, 0, 0, "Relaxed", 1), W(0, 1, 1, "Release", 1)], [U(1, 0, 1, "Relaxed", "u", 1)],
                             [R(2, 0, 1, "Acquire", "a"), R(2, 1, 0, "Relaxed", "b")]],
              z3.And(v("u") == 1, v("a") == 2, v("b") == 0), False)
    # RMW atomicity: two fetch_add(1) from 0 cannot both read 0
    ok &= run("rmw-atomic", [[U(0, 0, 0, "Relaxed", "u1", 1)], [U(1, 0, 0, "Relaxed", "u2", 1)]], z3.And(v("u1") == 0, v("u2") == 0), False)
    # 2+2W allowed with relaxed
    ok &= run("2+2W-rlx", [[W(0, 0, 0, "Relaxed", 1), W(0, 1, 1, "Relaxed", 2)], [W(1, 0, 1, "Relaxed", 1), W(1, 1, 0, "Relaxed", 2)],
                           [R(2, 0, 0, "Relaxed", "a"), R(2, 1, 0, "Relaxed", "a2")], [R(3, 0, 1, "Relaxed", "b"), R(3, 1, 1, "Relaxed", "b2")]],
              z3.And(v("a") == 2, v("a2") == 1, v("b") == 2, v("b2") == 1), True)
    print("litmus self-test:", "PASS" if ok else "FAIL")
    return 0 if ok else 1


if __name__ == "__main__":
    sys.exit(main())
