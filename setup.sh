#!/bin/bash
# Offline setup: verifies that the pre-installed tools the checks need are present. Builds nothing persistent.
set -e
cd "$(dirname "$0")"
python3-vt -c "import z3; print('z3', z3.get_version_string())"
cargo kani --version
cargo +nightly --version
mkdir -p /var/tmp/verif-work evidence
echo setup ok
