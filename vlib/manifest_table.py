"""The claims table. Every property of properties.jsonl is either claimed here or listed not-applicable."""

E2_TECH = ("symbolic execution of the crate's MIR (own executor 'mirse' over `rustc -Zunpretty=mir` of the current tree) with z3: "
           "script shapes enumerated, every number symbolic, obligations decided by the solver, counterexamples replayed natively")
E2_NOTE = ("Trusted base: the MIR interpreter and its models of std/tai_time calls (listed per run in the evidence), validated on every run by "
           "differential concrete runs against the real crate through its public API (harness/native/verif_runner.rs). "
           "Environment model: the executor runs every spawned future to completion inside run() (property C04 is assumed, not checked), "
           "leaf futures are opaque tokens, the clock is scripted. Bounded: script shapes and step_until iterations as stated in the evidence; "
           "a solver counterexample becomes a VIOLATION only after it reproduces on the real crate.")


def fill(claim, na):
    claim("C20", "E1 kani-overlay + E2 mirse",
          "Kani/CBMC bounded model checking of the real PriorityQueue on the real std BinaryHeap (all insert/pull shapes up to the bound, "
          "symbolic keys) + MIR symbolic execution (mirse, z3) of PriorityQueue and IndexedPriorityQueue over symbolic operation sequences "
          "with symbolic keys and a symbolic starting epoch counter",
          "Both queues return the entry with the least key, FIFO among equal keys, from ANY value of the epoch counter (so also across the "
          "2^32/2^64 boundaries no run can reach); an InsertKey removes exactly the entry it was issued for and nothing once that entry is "
          "gone, even after its slab slot was re-used; forged (index, epoch) pairs remove nothing; keys are never issued twice. Bounded: "
          "sequence length; decided by CBMC (part A) and z3 (part B).",
          "Trusted: the reference model in harness/kani/c20.rs, Kani's translation of Rust/std, the MIR interpreter and its Vec/BinaryHeap "
          "models (BinaryHeap specified as 'a maximal element by the element's own partial_cmp'; the real heap is exercised by part A). "
          "Counterexamples are replayed natively (Kani playback / a cfg(test) module appended to the overlay).",
          "DESIGN.md §5 C20")
    claim("C01", "E2 mirse", E2_TECH,
          "For every enumerated script of scheduling and stepping commands and EVERY value of the start time, deadlines, periods and targets, "
          "the real step/step_until/process/schedule code: never moves time backwards, advances step() to the earliest pending non-cancelled "
          "deadline, leaves step_until at its target, executes each action exactly once with the handler reading its deadline, in chronological "
          "order, and keeps every pending action strictly in the future.", E2_NOTE, "DESIGN.md §5 C01")
    claim("C07", "E2 mirse", E2_TECH,
          "With the executor model running the futures spawned for one step in EVERY order, actions of one origin due at the same (symbolic) "
          "time are executed in scheduling order — which can only hold through the SeqFuture the real step_to_next_bounded builds (its real "
          "poll is interpreted) and the (key, epoch) order of the queue.", E2_NOTE +
          " The BinaryHeap is specified as 'a maximal element w.r.t. the element type's own partial_cmp' (the crate's Item::cmp is interpreted).",
          "DESIGN.md §5 C07")
    claim("C08", "E2 mirse", E2_TECH,
          "A request is accepted iff deadline > now and period != 0 (all kinds, absolute/relative, also from handlers during a step); accepted "
          "requests fire at their deadline; every stepping call returns (unwinding assertion on the loops of one step).",
          E2_NOTE + " Race-freedom with real scheduling threads is not executed; see DESIGN.md for the structural lock-discipline obligation.",
          "DESIGN.md §5 C08")
    claim("C09", "E2 mirse", E2_TECH,
          "Keyed one-shot/periodic actions cancelled (through a clone of the key, by dropping an AutoActionKey, by a handler) before the due "
          "step never execute and no later occurrence does; cancelling after execution or twice changes nothing; other actions fire as in C01.",
          E2_NOTE + " The in-model re-check of send_keyed_event lives in a coroutine and is represented by the environment model.",
          "DESIGN.md §5 C09")
    claim("C10", "E2 mirse", E2_TECH,
          "Every executed occurrence k of a periodic action happens at t0 + k*p exactly once, the first non-executed one lies beyond the reached "
          "time, for every partition of the horizon into step/step_until commands and every (symbolic) t0, p, targets.", E2_NOTE, "DESIGN.md §5 C10")
    claim("C11", "E2 mirse", E2_TECH,
          "Reduced scope: a handler panic is reported as Panic{model} with the right model, a lag above the tolerance as OutOfSync(lag); after "
          "such a fatal error every further step/step_until/process returns Terminated without writing the time, calling the clock, spawning or "
          "running anything (empty and non-empty queue); InvalidDeadline does not terminate.",
          E2_NOTE + " NOT decided: Deadlock/MessageLoss/NoRecipient/Timeout classification and how the executors produce Panic (catch_unwind, "
                    "model-id capture, helper thread).", "DESIGN.md §5 C11")
    claim("C18", "E2 mirse", E2_TECH,
          "Every move to a new time is preceded by exactly one synchronize(new time), before any computation for that time; arguments never "
          "decrease; a lag above the (symbolic) tolerance fails the call with OutOfSync before model code of that time runs; without a "
          "tolerance lags are ignored — for every scripted clock answer sequence up to length 3.",
          E2_NOTE + " SimInit::init's synchronize(start time) is outside the driver-logic world.", "DESIGN.md §5 C18")
    K_TECH = ("bounded model checking with Kani/CBMC of #[kani::proof] harnesses compiled inside an overlay copy of the real crate: one "
              "handle operation from an arbitrary (symbolic) task state word satisfying the representation invariant; counterexamples "
              "replayed natively with Kani's concrete playback")
    K_NOTE = ("Trusted: the representation invariant and drop-counting future/output in harness/kani/c13.rs, Kani's translation of Rust and "
              "its sequential semantics of atomics (interleavings only where an operation is injected: between operations and inside poll), "
              "read-only accessors appended under cfg(kani) in the overlay. Bounded: wake count 0..3, surplus references 0..2, one task. "
              "NOT decided: C11 memory orderings, work stealing, the multi-threaded worker loop.")
    T_TECH = (" + symbolic execution of the MIR of runnable::run and Task::wake/wake_by_ref (mirse), one thread at a time, with the atomic "
              "accesses to the task state word as events of an axiomatic C11 release/acquire model decided by z3 (reads-from, modification "
              "order and happens-before are solver variables): run || publish+wake(+run) client programs; witnesses replayed under loom")
    T_NOTE = (" C11 part (E3): decided for the client programs listed in the evidence only (a scheduled task run by one thread while another "
              "publishes, wakes by reference and runs the Runnable it obtains; two such wakers on an idle task; <= 3 polls per thread); the "
              "future is a script, the scheduling function hands the Runnable to the waking thread; cancel, handle drops, wake by value and the "
              "output hand-over are NOT covered by the C11 part.")
    claim("C13", "E1 kani-overlay + E2 mirse + E3 axc11", K_TECH + T_TECH,
          "Inductive step: from every state of the task word that the phase table allows (Polling idle/scheduled, Completed, Wind-down, "
          "Closed; symbolic wake/reference counts) each handle operation (Runnable run/drop, Waker clone/wake/wake_by_ref/drop, "
          "CancelToken cancel/drop, Promise poll/drop, also injected inside poll) keeps the invariant, polls at most once at a time and "
          "never after completion/cancellation, re-polls after a wake during poll, and releases future/output exactly once (CBMC's "
          "pointer checks catch use-after-free/double free). Under the C11 memory model (E3): in no consistent execution of the client "
          "programs do two polls race on the future or is a wake-up lost (some poll sees what the waker published).",
          K_NOTE.replace("NOT decided: C11 memory orderings,", "NOT decided:") + T_NOTE, "DESIGN.md §5 C13")
    claim("C05", "E1 kani-overlay + E2 mirse + E3 axc11", K_TECH + T_TECH,
          "Task-layer core of model isolation: a second Runnable is never created while one exists, a wake during poll leads to a re-poll "
          "by the same Runnable, polls never overlap (checked by a ghost flag inside the future), from every symbolic task state. Under the "
          "C11 memory model (E3): two concurrent wakers of an idle task never both obtain a Runnable, and consecutive polls of the future "
          "are ordered by happens-before (no data race on the future) in every consistent execution of the client programs.",
          K_NOTE.replace("NOT decided: C11 memory orderings,", "NOT decided:") + T_NOTE + " The two type-system facts (one task owns model+receiver; recv awaits the handler) are not checked.", "DESIGN.md §5 C05")
    claim("C19", "E1 kani-overlay", K_TECH,
          "Task-layer obligations of dropping an executor: cancel / Runnable drop / handle drops from every symbolic task state release the "
          "future and the output exactly once, a wake issued after cancellation schedules nothing, the last owner frees the task.",
          K_NOTE + " Joining worker threads, undelivered messages in mailboxes and the whole-simulation accounting are NOT decided.",
          "DESIGN.md §5 C19")
    claim("C17", "E2 mirse", E2_TECH,
          "Every sequence of N operations over {write(v), next, open, close} (+ full drain) on the real EventBuffer<u8>/EventSlot<u8> code, "
          "with every written value and the buffer capacity symbolic, agrees with the reference (FIFO, overflow keeps the `capacity` most "
          "recent, slot yields the latest once, closed sinks ignore writes).",
          "Trusted: MIR interpreter + models of VecDeque/Mutex/Arc/AtomicBool (sequential). Counterexamples are replayed through the public "
          "sink API. Not decided: end-to-end order from a model's output to the sink (coroutine), concurrent writers.", "DESIGN.md §5 C17")
    claim("C06", "E2 mirse + E3 axc11", E2_TECH + "; the idle/park hand-off of the in-flight count: axiomatic C11 model checking (axc11) over the "
          "events of run_local_worker and Executor::run executed from the MIR",
          "(c) hand-off: with 2 (thorough 3) workers that have processed every message (symbolic per-thread counts summing to 0) going idle and "
          "Executor::run checking the pool, NO C11-consistent execution returns UnprocessedMessages or panics. "
          "Reduced scope: (a) Simulation::run maps UnprocessedMessages(n) to Deadlock listing exactly the observed models with a non-empty "
          "mailbox (registration order, exact sizes) or to MessageLoss(n) when all are empty, for 0..4 observers with symbolic lengths; "
          "(b) SimInit::add_model / simulation::add_model / BuildContext::add_submodel register an observer under the fully qualified name "
          "(parent.child, '<unknown>' for empty names) for EVERY model of every hierarchy up to the bound, watching that model's own mailbox.",
          "Trusted: MIR interpreter; ProtoModel::build is a script adding the sub-models of the enumerated tree; Receiver/Sender are tokens. "
          "Counterexamples are replayed on a native hierarchical bench in which each model dead-locks on a query loop-back (1 and 3 threads). "
          "Hand-off part: each worker runs from the top of run_local_worker's loop to its first park with the injector empty, <= 1 (thorough 2) "
          "CAS retries, Executor::run <= 2 idle checks, its activation preceding the deactivation attempts; witnesses are replayed by a native "
          "stress run (harness/native/verif_c06_handoff.rs). NOT decided: the +-1 updates of the counter inside send/recv under real parallelism "
          "(at task granularity they are exercised by the message-plane benches of C03/C12), workers re-activated during the hand-off.",
          "DESIGN.md §5 C06")
    claim("C15", "E3 axc11 (on E2 mirse)",
          "axiomatic C11 model checking: each thread of a client program is executed symbolically on the crate's MIR (mirse), its atomic "
          "loads/stores/fences become events, and z3 searches for a reads-from / modification-order assignment consistent with the C11 "
          "release/acquire axioms that violates the property; witnesses are replayed under loom",
          "For the listed client programs (1-2 writes of symbolic times, a reader doing 1-2 try_read, optionally a Release/Acquire "
          "publication flag) NO C11-consistent execution of the real SyncCell/TearableAtomicTime code returns a torn time, an older time "
          "than one already observed, or one older than what was published; the writer reads back its last write.",
          "Trusted: the axiomatic model in vlib/mirse/axc11.py (self-tested on MP/SB/LB/CoRR/fence/release-sequence/RMW litmus shapes), "
          "the MIR interpreter. Bounded: the client programs; read()'s retry loop is represented by try_read outcomes. A solver witness "
          "becomes a VIOLATION only when loom (the repository's own seqlock loom tests + the same client program) reproduces a failure.",
          "DESIGN.md §5 C15")
    claim("C12", "E2 mirse + E3 axc11", E2_TECH + "; wake-ups: the message-plane benches (real send/recv coroutines, every task order); "
          "C11: axiomatic model checking (axc11) of one push racing with one pop on the real Queue MIR, witnesses replayed under loom",
          "(b) wake-ups: on acyclic benches with capacity-1/2 mailboxes, blocked senders and competing producers, no driver command ever stalls, "
          "for every task order (a sender waiting for space and the receiver waiting for a message are resumed). (c) C11: for one producer "
          "pushing a message while the consumer pops, reads and releases it (capacities 1-2, thorough 1-4) no C11-consistent execution has a "
          "data race on a slot, reads a slot in the wrong state or pops a different message. "
          "(a) sequential semantics: from EVERY valid queue state (capacities 1-4 incl. non powers of two, "
          "every fill level / dequeue index / closed flag, SYMBOLIC sequence counters — so also at the 2^64 wrap-around) each of push, pop, "
          "pop+drop, close keeps the representation invariant, push says Full iff capacity is reached (a borrowed slot is not reusable), "
          "pop yields the oldest message, len() equals the number held, closed queues refuse pushes but stay drainable, no arithmetic "
          "panic; plus every 6-operation sequence from Queue::new against a reference FIFO.",
          "Trusted: MIR interpreter, RecycleBox as an identity token, sequential atomics (compare_exchange_weak may fail spuriously once). "
          "Counterexamples are replayed on the real Queue<u64> by a cfg(test) module appended to the overlay that pokes the solver's "
          "state into the private fields. Wake-ups are decided at task-poll granularity only (a notification racing with a failed push/pop "
          "on another thread is NOT explored; async-event/diatomic-waker are models). C11: NOT decided beyond one operation per thread "
          "(slot reuse, several producers: thread-isolated path enumeration explodes on the retry loops).", "DESIGN.md §5 C12")
    MP_TECH = ("symbolic execution of the crate's MIR, compiler-generated coroutines included (own executor 'mirse' over `rustc -Zunpretty=mir` of the "
               "current tree, z3): benches of scripted models run on the real ports / broadcaster / channel / model-task code under a cooperative "
               "executor model whose task picks are symbolic and decided by the solver; message data symbolic; counterexamples replayed on the "
               "compiled crate with the same task schedule")
    MP_NOTE = ("Trusted base: the MIR interpreter; the executor model (spawn = new ready task, run = poll one ready task at a time until none is "
               "ready, then report the in-flight count as the real executors do); the user models (handler = script of port operations, each the "
               "real Output::send / Requestor::send coroutine); models of async-event, diatomic-waker, multishot, recycle-box written after their "
               "sources (vlib/mirse/asyncmodels.py). Granularity: tasks interleave at await points only - real parallelism, work stealing and "
               "memory-ordering effects are NOT explored. Bounded: the listed benches (<= 5 models, capacities 1-2, <= 4 operations per handler, "
               "<= 3 driver commands). A counterexample becomes a VIOLATION only when the same bench, polled in the counterexample's task order "
               "inside the compiled crate (harness/native/verif_sched_tail.rs) or run on the real executors with 1/2/4 threads "
               "(harness/native/verif_bench.rs), violates the same obligation.")
    claim("C02", "E2 mirse (message plane)", MP_TECH,
          "For every bench (causal triangle incl. saturated capacity-1 mailboxes, broadcast fan-out with forwarding, diamond with competing "
          "suspended senders, init-time sends, queries with sending repliers) and EVERY order in which ready tasks can be polled: whenever the "
          "delivery of M1 to B happens before the delivery of M3 to B (program order of completed port operations in one handler, "
          "send-to-processing edges; deliveries of one broadcast mutually unordered), B processes M1 first.", MP_NOTE, "DESIGN.md §5 C02")
    claim("C03", "E2 mirse (message plane)", MP_TECH,
          "At the end of every driver command that returned Ok, every message sent so far was processed exactly once by each recipient whose "
          "connection (plain / map / filter_map with a symbolic accept bit, several ports, late connections through clones) accepts it and by "
          "nobody else, every handler ran to completion, nothing was invented; no panic in the message plane - for volumes above the mailbox "
          "capacities, blocked senders, scheduler-origin and model-origin sends, every task order.", MP_NOTE, "DESIGN.md §5 C03")
    claim("C14", "E2 mirse (message plane)", MP_TECH,
          "A query returns exactly the replies 1000*(replier+1)+request of the repliers whose connection accepts it, in connection order, and only "
          "after every such replier has finished, for 0-2 (thorough 0-3) repliers with filtered subsets, yielding repliers (all completion orders "
          "and re-polls), partly consumed reply iterators followed by another query; handles cloned before/after connecting and connections added "
          "later through a fresh clone serve every subsequent send of every clone.", MP_NOTE +
          " NOT decided: TaskSet / CachedRwLock under real concurrency (sequential semantics of their atomics here).", "DESIGN.md §5 C14")
    claim("C16", "E2 mirse (message plane)", MP_TECH,
          "On the real model task of simulation::add_model (init().await then the receive loop) and SimInit::init: every model's init runs "
          "exactly once, inside SimInit::init, before that model processes any message, for benches whose init scripts send to models that are "
          "not initialised yet (the messages are kept and processed afterwards: C03's obligations on the same runs), including a hierarchy with "
          "sub-models added by the parent's build through the real BuildContext::add_submodel (depth 2, an unnamed child): each model sees its "
          "qualified name (parent.child, '<unknown>') in its Context; every task order.", MP_NOTE +
          " Larger hierarchies (every forest up to 4 models) are covered structurally by C06's registration scenario.",
          "DESIGN.md §5 C16")
    na("C04", "The property is about the executors themselves: the multi-threaded idle/park hand-off, work stealing and parking on real threads "
              "(st3, parking) and the equivalence of the two executors. Kani has no threads; the MIR engine replaces the executor by a model "
              "(run-to-quiescence is what that model assumes), and the one executor hand-off that could be encoded (the in-flight count at the "
              "idle transition) is decided under C06. The rest cannot be encoded within reach (DESIGN.md §6).")
