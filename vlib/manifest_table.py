"""The claims table. Every property of properties.jsonl is either claimed here or listed not-applicable."""

E2_TECH = ("symbolic execution of the crate's MIR (own executor 'mirse' over `rustc -Zunpretty=mir` of the current tree) with z3: "
           "script shapes enumerated, every number symbolic, obligations decided by the solver, counterexamples replayed natively")
E2_NOTE = ("Trusted base: the MIR interpreter and its models of std/tai_time calls (listed per run in the evidence), validated on every run by "
           "differential concrete runs against the real crate through its public API (harness/native/verif_runner.rs). "
           "Environment model: the executor runs every spawned future to completion inside run() (property C04 is assumed, not checked), "
           "leaf futures are opaque tokens, the clock is scripted. Bounded: script shapes and step_until iterations as stated in the evidence; "
           "a solver counterexample becomes a VIOLATION only after it reproduces on the real crate.")


def fill(claim, na):
    claim("C20", "E1 kani-overlay",
          "bounded model checking (Kani/CBMC) of the real PriorityQueue over all operation shapes up to the bound with symbolic keys",
          "For every insert/pull sequence up to the stated length (peek checked after every operation) and every key/value, "
          "the real PriorityQueue<(u8,u8),u8> agrees with a reference model (least key, FIFO among equal keys). Bounded: "
          "sequence length and the (u8,u8) key instantiation; decided by CBMC's SAT back end over the compiled code, unwinding assertions on.",
          "Trusted: the reference model in harness/kani/c20.rs, Kani's translation of Rust/std (BinaryHeap is the real std code), "
          "no allocation failure. Not decided yet: the indexed queue (IndexedPriorityQueue) — CBMC needs >200 s per 6-operation shape; "
          "it is being moved to the MIR engine.",
          "DESIGN.md §5 C20")
    claim("C01", "E2 mirse", E2_TECH,
          "For every enumerated script of scheduling and stepping commands and EVERY value of the start time, deadlines, periods and targets, "
          "the real step/step_until/process/schedule code: never moves time backwards, advances step() to the earliest pending non-cancelled "
          "deadline, leaves step_until at its target, executes each action exactly once with the handler reading its deadline, in chronological "
          "order, and keeps every pending action strictly in the future.", E2_NOTE, "DESIGN.md §5 C01")
    claim("C07", "E2 mirse", E2_TECH,
          "With the executor model running the futures spawned for one step in EVERY order, actions of one origin due at the same (symbolic) "
          "time are executed in scheduling order — which can only hold through the SeqFuture the real step_to_next_bounded builds (its real "
          "poll is interpreted) and the (key, epoch) order of the queue.", E2_NOTE +
          " The BinaryHeap is specified as 'a maximal element w.r.t. the element type's own partial_cmp' (the crate's Item::cmp is interpreted).",
          "DESIGN.md §5 C07")
    claim("C08", "E2 mirse", E2_TECH,
          "A request is accepted iff deadline > now and period != 0 (all kinds, absolute/relative, also from handlers during a step); accepted "
          "requests fire at their deadline; every stepping call returns (unwinding assertion on the loops of one step).",
          E2_NOTE + " Race-freedom with real scheduling threads is not executed; see DESIGN.md for the structural lock-discipline obligation.",
          "DESIGN.md §5 C08")
    claim("C09", "E2 mirse", E2_TECH,
          "Keyed one-shot/periodic actions cancelled (through a clone of the key, by dropping an AutoActionKey, by a handler) before the due "
          "step never execute and no later occurrence does; cancelling after execution or twice changes nothing; other actions fire as in C01.",
          E2_NOTE + " The in-model re-check of send_keyed_event lives in a coroutine and is represented by the environment model.",
          "DESIGN.md §5 C09")
    claim("C10", "E2 mirse", E2_TECH,
          "Every executed occurrence k of a periodic action happens at t0 + k*p exactly once, the first non-executed one lies beyond the reached "
          "time, for every partition of the horizon into step/step_until commands and every (symbolic) t0, p, targets.", E2_NOTE, "DESIGN.md §5 C10")
    claim("C11", "E2 mirse", E2_TECH,
          "Reduced scope: a handler panic is reported as Panic{model} with the right model, a lag above the tolerance as OutOfSync(lag); after "
          "such a fatal error every further step/step_until/process returns Terminated without writing the time, calling the clock, spawning or "
          "running anything (empty and non-empty queue); InvalidDeadline does not terminate.",
          E2_NOTE + " NOT decided: Deadlock/MessageLoss/NoRecipient/Timeout classification and how the executors produce Panic (catch_unwind, "
                    "model-id capture, helper thread).", "DESIGN.md §5 C11")
    claim("C18", "E2 mirse", E2_TECH,
          "Every move to a new time is preceded by exactly one synchronize(new time), before any computation for that time; arguments never "
          "decrease; a lag above the (symbolic) tolerance fails the call with OutOfSync before model code of that time runs; without a "
          "tolerance lags are ignored — for every scripted clock answer sequence up to length 3.",
          E2_NOTE + " SimInit::init's synchronize(start time) is outside the driver-logic world.", "DESIGN.md §5 C18")
    pending = "check not built yet in this round (planned, see DESIGN.md §5); not claimed until it runs"
    for p in ["C02", "C03", "C05", "C06", "C12", "C13", "C14", "C15", "C17", "C19"]:
        na(p, pending)
    na("C04", "The property is about the multi-threaded executor's idle/park hand-off on real threads (st3, parking); Kani has no "
              "threads and the MIR engine has no model of blocking primitives; the single-threaded remainder would not justify the claim.")
    na("C16", "The guarantee is the order of two awaits inside a compiler-generated coroutine driven by executor and mailbox; "
              "coroutine state machines are outside what either engine can execute (DESIGN.md §2, §6).")
