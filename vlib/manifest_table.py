"""The claims table. Every property of properties.jsonl is either claimed here or listed not-applicable."""


def fill(claim, na):
    claim("C20", "E1 kani-overlay",
          "bounded model checking (Kani/CBMC) of the real PriorityQueue over all operation shapes up to the bound with symbolic keys",
          "For every insert/pull sequence up to the stated length (peek checked after every operation) and every key/value, "
          "the real PriorityQueue<(u8,u8),u8> agrees with a reference model (least key, FIFO among equal keys). Bounded: "
          "sequence length and the (u8,u8) key instantiation; decided by CBMC's SAT back end over the compiled code, unwinding assertions on.",
          "Trusted: the reference model in harness/kani/c20.rs, Kani's translation of Rust/std (BinaryHeap is the real std code), "
          "no allocation failure. Not decided yet: the indexed queue (IndexedPriorityQueue) — CBMC needs >200 s per 6-operation shape; "
          "it is being moved to the MIR engine.",
          "DESIGN.md §5 C20")
    pending = "check not built yet in this round (planned, see DESIGN.md §5); not claimed until it runs"
    for p in ["C01", "C02", "C03", "C05", "C06", "C07", "C08", "C09", "C10", "C11", "C12", "C13", "C14", "C15", "C17", "C18", "C19"]:
        na(p, pending)
    na("C04", "The property is about the multi-threaded executor's idle/park hand-off on real threads (st3, parking); Kani has no "
              "threads and the MIR engine has no model of blocking primitives; the single-threaded remainder would not justify the claim.")
    na("C16", "The guarantee is the order of two awaits inside a compiler-generated coroutine driven by executor and mailbox; "
              "coroutine state machines are outside what either engine can execute (DESIGN.md §2, §6).")
