"""Shared infrastructure: overlay copies of /repo, scratch dirs, evidence, known findings, exit codes."""
import fcntl
import hashlib
import json
import os
import shutil
import subprocess
import sys
import time

VERIF = os.path.dirname(os.path.dirname(os.path.abspath(__file__)))
REPO = os.environ.get("VERIF_REPO", "/repo")
WORK = os.environ.get("VERIF_WORK", "/var/tmp/verif-work")
EVIDENCE_DIR = os.path.join(VERIF, "evidence")
REPLAY_DIR = os.path.join(VERIF, "replays")
KNOWN_FINDINGS = os.path.join(VERIF, "known_findings.json")

EXIT_OK = 0
EXIT_VIOLATION = 1
EXIT_INCONCLUSIVE = 2

OFFLINE_ENV = {"CARGO_NET_OFFLINE": "true", "GOPROXY": "off", "PIP_NO_INDEX": "1"}


def env_offline(extra=None):
    e = dict(os.environ)
    e.update(OFFLINE_ENV)
    if extra:
        e.update(extra)
    return e


def log(*a):
    print(*a, flush=True)


def seed():
    try:
        return int(os.environ.get("VERIF_SEED", "0"))
    except ValueError:
        return 0


def sha256_file(path):
    h = hashlib.sha256()
    with open(path, "rb") as f:
        for chunk in iter(lambda: f.read(1 << 20), b""):
            h.update(chunk)
    return h.hexdigest()


def source_hashes(relpaths):
    out = {}
    for r in relpaths:
        p = os.path.join(REPO, r)
        out[r] = sha256_file(p) if os.path.exists(p) else None
    return out


class WorkDir:
    """A per-key persistent work area under WORK (outside /repo, /verif and /tmp), locked for the
    duration of a check.  Holds the overlay copy of the repository and cargo target dirs so that
    dependency builds are re-used between runs; the overlay itself is re-synchronised from the
    current working tree of /repo on every run."""

    def __init__(self, key):
        self.key = key
        self.path = os.path.join(WORK, key)
        os.makedirs(self.path, exist_ok=True)
        self._lockf = open(os.path.join(self.path, ".lock"), "w")
        fcntl.flock(self._lockf, fcntl.LOCK_EX)

    def sub(self, *parts):
        p = os.path.join(self.path, *parts)
        return p

    def sync_overlay(self, name="ov"):
        """Copy /repo/nexosim (working tree) + Cargo.lock into <work>/<name>; returns crate dir."""
        ov = self.sub(name)
        os.makedirs(ov, exist_ok=True)
        src = os.path.join(REPO, "nexosim") + "/"
        dst = os.path.join(ov, "nexosim") + "/"
        # compare by content and do NOT preserve modification times: a file whose content changed gets the current time, so
        # cargo rebuilds even when the new content is older than the last build output (e.g. the overlay last held a patched
        # tree); files with identical content are left alone, so nothing is rebuilt needlessly
        subprocess.run(["rsync", "-rlpgoD", "--checksum", "--delete", "--exclude", "target", src, dst], check=True)
        shutil.copy(os.path.join(REPO, "Cargo.lock"), os.path.join(ov, "Cargo.lock"))
        with open(os.path.join(ov, "Cargo.toml"), "w") as f:
            f.write('[workspace]\nmembers = ["nexosim"]\nresolver = "2"\n')
        return os.path.join(ov, "nexosim")

    def close(self):
        try:
            fcntl.flock(self._lockf, fcntl.LOCK_UN)
            self._lockf.close()
        except Exception:
            pass


def load_known_findings():
    if not os.path.exists(KNOWN_FINDINGS):
        return {"findings": [], "fixed": []}
    with open(KNOWN_FINDINGS) as f:
        return json.load(f)


def known_finding_for(prop, role):
    """Return the known-finding entry suppressing (prop, role), or None. 'fixed' entries never suppress."""
    kf = load_known_findings()
    for e in kf.get("findings", []):
        if e.get("property") == prop and e.get("role") == role:
            return e
    return None


class Evidence:
    def __init__(self, prop, tier, level="model_checking"):
        self.prop = prop
        self.tier = tier
        self.level = level
        self.t0 = time.time()
        self.cov = {
            "states": 0,
            "transitions": 0,
            "traces_validated_against_impl": 0,
            "samples": [],
            "obligations": 0,
            "discharged": 0,
            "functions_encoded": [],
            "bounds": {},
            "solver_time_s": 0.0,
            "queries": 0,
            "engines": [],
            "source_sha256": {},
            "vacuity_witnesses": [],
            "outside_claim": [],
        }
        self.assumptions = []
        self.violations = 0
        self.notes = []

    def add_sample(self, s, cap=12):
        if len(self.cov["samples"]) < cap:
            self.cov["samples"].append(s)

    def write(self, status):
        os.makedirs(EVIDENCE_DIR, exist_ok=True)
        cov = dict(self.cov)
        cov["status"] = status
        cov["solver_time_s"] = round(cov["solver_time_s"], 3)
        if not cov["samples"]:
            cov["samples"] = ["(no obligation reached — see status)"]
        cov["states"] = max(int(cov["states"]), 0)
        cov["transitions"] = max(int(cov["transitions"]), 0)
        if self.notes:
            cov["notes"] = self.notes
        doc = {
            "property_id": self.prop,
            "tier": self.tier,
            "seed": seed(),
            "level": self.level,
            "coverage": cov,
            "assumptions": self.assumptions,
            "wall_s": round(time.time() - self.t0, 2),
            "violations": self.violations,
        }
        path = os.path.join(EVIDENCE_DIR, f"{self.prop}.json")
        tmp = path + ".tmp"
        with open(tmp, "w") as f:
            json.dump(doc, f, indent=1, default=str)
        os.replace(tmp, path)
        return path


def replay_dir(prop, tag):
    d = os.path.join(REPLAY_DIR, prop, tag)
    os.makedirs(d, exist_ok=True)
    return d


def run(cmd, cwd=None, env=None, timeout=None, log_path=None, mem_gb=None):
    """Run a command, return (rc, output). rc=-9 on timeout."""
    pre = None
    if mem_gb:
        import resource

        def pre():
            lim = int(mem_gb * (1 << 30))
            resource.setrlimit(resource.RLIMIT_AS, (lim, lim))

    try:
        p = subprocess.run(
            cmd, cwd=cwd, env=env or env_offline(), timeout=timeout, stdout=subprocess.PIPE, stderr=subprocess.STDOUT,
            preexec_fn=pre, text=True, errors="replace",
        )
        out, rc = p.stdout, p.returncode
    except subprocess.TimeoutExpired as e:
        out = (e.stdout or b"")
        if isinstance(out, bytes):
            out = out.decode(errors="replace")
        out += "\n[TIMEOUT]\n"
        rc = -9
    if log_path:
        with open(log_path, "w") as f:
            f.write(out)
    return rc, out
