"""Generates /verif/MANIFEST.json from the table below (kept in one place so it is always valid)."""
import json
import os
import sys

VERIF = os.path.dirname(os.path.dirname(os.path.abspath(__file__)))

BASE_CMD = ("cd /repo && cargo nextest run --workspace --no-fail-fast --tool-config-file pb:/w/lib/nextest.toml --profile pb "
            "--test-threads 8 --offline || cargo test --workspace --no-fail-fast --offline")

CHECKS = {}
NOT_APPLICABLE = {}


def claim(pid, engine, technique, text, note, design_ref):
    CHECKS[pid] = dict(engine=engine, technique=technique, text=text, note=note, design_ref=design_ref)


def na(pid, reason):
    NOT_APPLICABLE[pid] = reason


from .manifest_table import fill  # noqa: E402

fill(claim, na)


def build():
    checks = []
    for pid in sorted(CHECKS):
        c = CHECKS[pid]
        checks.append({
            "property_id": pid,
            "quick_cmd": f"./check {pid} --tier quick",
            "thorough_cmd": f"./check {pid} --tier thorough",
            "evidence_file": f"/verif/evidence/{pid}.json",
            "replay_cmd_template": f"./check {pid} --replay {{path}}",
            "engine": c["engine"],
            "level_claimed": {"category": "model_checking", "text": c["text"], "design_ref": c["design_ref"]},
            "level_note": c["note"],
            "technique": c["technique"],
        })
    return {
        "version": 1,
        "setup_cmd": "./setup.sh",
        "hooks": {
            "guard": "cfg(kani) — present only in the scratch overlay copy of /repo/nexosim that the checks build; /repo carries no hooks",
            "enable": "checks copy /repo/nexosim (working tree) to /var/tmp/verif-work/<key>/ov, append #[cfg(kani)] harness modules/accessors there, and build that copy (cargo kani / cargo +nightly rustc -Zunpretty=mir)",
            "baseline_off_cmd": BASE_CMD,
            "source_commits": [],
            "add_only": True,
        },
        "engines": [
            {"name": "kani-overlay", "path": "vlib/kanirun.py", "serves_properties": [p for p in sorted(CHECKS) if "E1" in CHECKS[p]["engine"]],
             "kind_free_text": "Kani 0.68/CBMC 6.11 bounded model checking of #[kani::proof] harnesses compiled inside an overlay copy of the real crate"},
            {"name": "mirse", "path": "vlib/mirse/", "serves_properties": [p for p in sorted(CHECKS) if "E2" in CHECKS[p]["engine"]],
             "kind_free_text": "symbolic executor over the nightly MIR dump of the real crate; scalars are z3 bit-vectors, obligations discharged by z3 (cvc5 cross-check in thorough)"},
            {"name": "axc11", "path": "vlib/mirse/axc11.py", "serves_properties": [p for p in sorted(CHECKS) if "E3" in CHECKS[p]["engine"]],
             "kind_free_text": "axiomatic C11 release/acquire memory model over the atomic events emitted by mirse, decided by z3"},
        ],
        "checks": checks,
        "not_applicable": [{"property_id": p, "reason": NOT_APPLICABLE[p]} for p in sorted(NOT_APPLICABLE)],
        "notes": "Exit codes: 0 held within the stated bounds, 1 replayed violation (VIOLATION line), 2 inconclusive (build/timeout/unsupported/non-reproducing). See DESIGN.md.",
    }


if __name__ == "__main__":
    m = build()
    with open(os.path.join(VERIF, "MANIFEST.json"), "w") as f:
        json.dump(m, f, indent=1)
    print("MANIFEST.json written:", len(m["checks"]), "checks,", len(m["not_applicable"]), "not applicable")
