"""E1 — Kani/CBMC runner on an overlay copy of /repo/nexosim.

The overlay is the working tree of /repo/nexosim copied verbatim; harness modules are *added*
(`src/verif_kani/*.rs` + `#[cfg(kani)] mod verif_kani;` appended to lib.rs) and accessor snippets are
*appended* to existing files under #[cfg(kani)].  Nothing in the code under test is edited.
"""
import os
import re
import shutil
import time

from . import common as C

HARNESS_SRC = os.path.join(C.VERIF, "harness", "kani")

RE_CHECKING = re.compile(r"^Thread (\d+): Checking harness (\S+?)\.\.\.")
RE_THREAD = re.compile(r"^Thread (\d+):\s*$")


class HarnessResult:
    def __init__(self, name):
        self.name = name
        self.status = "MISSING"  # SUCCESS | FAILED | UNWIND | TIMEOUT | OOM | ERROR | VACUOUS | MISSING
        self.failed_checks = []
        self.checks_total = 0
        self.covers_sat = 0
        self.covers_total = 0
        self.time_s = 0.0
        self.raw = []

    def to_json(self):
        return {
            "harness": self.name, "status": self.status, "checks": self.checks_total,
            "covers": f"{self.covers_sat}/{self.covers_total}", "time_s": round(self.time_s, 2),
            "failed_checks": self.failed_checks[:6],
        }


def prepare_overlay(work, modules, generated=None, appends=None):
    """Sync overlay and install harness modules.

    modules: list of module names (files harness/kani/<m>.rs)
    generated: dict module -> extra source text appended to that module (generated harnesses)
    appends: dict relative source path (under nexosim/) -> text appended (accessors, cfg(kani) only)
    """
    crate = work.sync_overlay("ov")
    vk = os.path.join(crate, "src", "verif_kani")
    os.makedirs(vk, exist_ok=True)
    with open(os.path.join(vk, "mod.rs"), "w") as f:
        f.write("#![allow(unused, dead_code, unused_imports, clippy::all)]\n")
        for m in modules:
            f.write(f"mod {m};\n")
    for m in modules:
        src = open(os.path.join(HARNESS_SRC, m + ".rs")).read()
        if generated and m in generated:
            src += "\n" + generated[m]
        with open(os.path.join(vk, m + ".rs"), "w") as f:
            f.write(src)
    with open(os.path.join(crate, "src", "lib.rs"), "a") as f:
        f.write("\n#[cfg(kani)]\nmod verif_kani;\n")
    for rel, text in (appends or {}).items():
        p = os.path.join(crate, rel)
        if not os.path.exists(p):
            raise FileNotFoundError(f"overlay append target missing: {rel}")
        with open(p, "a") as f:
            f.write("\n" + text + "\n")
    return crate


def parse_output(out, names):
    res = {n: HarnessResult(n) for n in names}
    thread_h = {}
    cur = None
    build_failed = "error: could not compile" in out or "error[E" in out
    for line in out.splitlines():
        m = RE_CHECKING.match(line)
        if m:
            short = m.group(2).split("::")[-1]
            thread_h[m.group(1)] = short
            cur = None
            continue
        m = RE_THREAD.match(line)
        if m:
            cur = res.get(thread_h.get(m.group(1)))
            continue
        if line.startswith("Checking harness "):  # sequential mode
            short = line[len("Checking harness "):].rstrip(". ").split("::")[-1]
            cur = res.get(short)
            continue
        if cur is None:
            continue
        cur.raw.append(line)
        s = line.strip()
        mm = re.match(r"\*\* (\d+) of (\d+) failed", s)
        if mm:
            cur.checks_total = int(mm.group(2))
        mm = re.match(r"\*\* (\d+) of (\d+) cover properties satisfied", s)
        if mm:
            cur.covers_sat, cur.covers_total = int(mm.group(1)), int(mm.group(2))
        if s.startswith("Failed Checks:"):
            cur.failed_checks.append(s[len("Failed Checks:"):].strip())
        if s.startswith("VERIFICATION:- SUCCESSFUL"):
            cur.status = "SUCCESS"
        elif s.startswith("VERIFICATION:- FAILED"):
            if cur.status == "MISSING":
                cur.status = "FAILED"
        if "CBMC timed out" in s:
            cur.status = "TIMEOUT"
        if "run out of memory" in s:
            cur.status = "OOM"
        mm = re.match(r"Verification Time: ([0-9.]+)s", s)
        if mm:
            cur.time_s = float(mm.group(1))
    for r in res.values():
        if r.status == "FAILED":
            real = [c for c in r.failed_checks if "unwinding assertion" not in c]
            if not r.failed_checks:
                r.status = "ERROR"
            elif not real:
                r.status = "UNWIND"
        if r.status == "SUCCESS" and r.covers_total and r.covers_sat < r.covers_total:
            r.status = "VACUOUS"
    return res, build_failed


def run_harnesses(work, crate, names, jobs=12, harness_timeout_s=300, mem_gb=14, stubbing=False, total_timeout_s=None,
                  log_name="kani.log"):
    """Run the named harnesses (exact short names) in one cargo-kani invocation."""
    target = work.sub("kani-target")
    cmd = ["cargo", "kani", "--target-dir", target, "-j", str(jobs), "--output-format", "terse",
           "-Z", "unstable-options", "--harness-timeout", f"{int(harness_timeout_s)}s"]
    if stubbing:
        cmd += ["-Z", "stubbing"]
    for n in names:
        cmd += ["--harness", n]
    t0 = time.time()
    if total_timeout_s is None:
        total_timeout_s = 240 + harness_timeout_s * (1 + len(names) // max(jobs, 1))
    rc, out = C.run(cmd, cwd=crate, timeout=total_timeout_s, log_path=work.sub(log_name), mem_gb=mem_gb)
    res, build_failed = parse_output(out, names)
    # the `--harness` filter is a substring match: drop accidental extra matches silently (they are not in `names`)
    return res, build_failed, rc, time.time() - t0, out


def playback(work, crate, name, module, stubbing=False, timeout_s=900):
    """Obtain a concrete counterexample for a failing harness (Kani concrete playback, print mode), add the generated
    unit test(s) for the failing *assertion* to the harness module in the overlay and run them natively (dev profile).
    Returns (reproduced: bool|None, artefacts: dict)."""
    target = work.sub("kani-target")
    cmd = ["cargo", "kani", "--target-dir", target, "--harness", name, "-Z", "concrete-playback",
           "--concrete-playback=print", "--output-format", "terse"]
    if stubbing:
        cmd += ["-Z", "stubbing"]
    gen_log = work.sub(f"playback-gen-{name}.log")
    rc, out = C.run(cmd, cwd=crate, timeout=timeout_s, log_path=gen_log, mem_gb=24)
    blocks = re.findall(r"```\n(/// Test generated for harness.*?)```", out, flags=re.S)
    tests, src = [], []
    for b in blocks:
        if "Check for `cover`" in b:
            continue
        m = re.search(r"fn (kani_concrete_playback_\w+)\(", b)
        if m and m.group(1) not in tests:
            tests.append(m.group(1))
            src.append(b)
    art = {"gen_log": gen_log, "tests": tests}
    if not tests:
        return None, art
    modfile = os.path.join(crate, "src", "verif_kani", module + ".rs")
    with open(modfile, "a") as f:
        f.write("\n// ---- concrete playback tests generated by Kani for a failing assertion ----\n")
        f.write("\n".join(src))
    cmd = ["cargo", "kani", "playback", "-Z", "concrete-playback", "--", "kani_concrete_playback_" + name]
    env = C.env_offline({"CARGO_TARGET_DIR": work.sub("playback-target")})
    run_log = work.sub(f"playback-run-{name}.log")
    rc2, out2 = C.run(cmd, cwd=crate, env=env, timeout=timeout_s, log_path=run_log)
    art["run_log"] = run_log
    return native_verdict(out2), art


def native_verdict(out):
    """True: a playback test panicked inside the harness / the code under test; False: it ran past the recorded
    values or passed (the counterexample does not reproduce); None: nothing ran."""
    panics = re.findall(r"panicked at ([^\n]*)", out)
    real = [p for p in panics if "concrete_playback.rs" not in p]
    if "test result: FAILED" in out and real:
        return True
    if "test result: FAILED" in out or re.search(r"test result: ok\. [1-9]", out):
        return False
    return None


def save_replay(prop, name, work, crate, art, extra=None, appends=None):
    d = C.replay_dir(prop, name)
    if appends:
        import json
        with open(os.path.join(d, "appends.json"), "w") as f:
            json.dump(appends, f)
    for k in ("gen_log", "run_log"):
        if art.get(k) and os.path.exists(art[k]):
            shutil.copy(art[k], os.path.join(d, os.path.basename(art[k])))
    vk = os.path.join(crate, "src", "verif_kani")
    for fn in os.listdir(vk):
        shutil.copy(os.path.join(vk, fn), os.path.join(d, fn))
    with open(os.path.join(d, "README.txt"), "w") as f:
        f.write(
            f"Counterexample for {prop}, Kani harness {name}.\n"
            "The harness sources as run (with the generated kani_concrete_playback_* unit test) are in this directory.\n"
            f"Re-run: ./check {prop} --replay {d}\n"
            "(copies /repo/nexosim to a scratch overlay, installs these files as src/verif_kani/, and runs\n"
            " `cargo kani playback -Z concrete-playback -- <test>` natively.)\n"
        )
        if extra:
            f.write(extra + "\n")
    return d
