"""Parser for the textual MIR dump produced by `rustc -Zunpretty=mir` (nightly 1.97).

Only the subset that the interpreted functions use is understood; anything else raises Unsupported so that a check
that reaches it ends *inconclusive*, never silently skipped.
"""
import re


class Unsupported(Exception):
    pass


OPEN = "([{<"
CLOSE = ")]}>"
MATCH = {")": "(", "]": "[", "}": "{", ">": "<"}


def _scan(s, i=0):
    """Yield (index, char, depth) for chars at bracket depth computed over ()[]{}<> while skipping string/char
    literals and treating '->' and '=>' as non-brackets."""
    depth = 0
    n = len(s)
    while i < n:
        c = s[i]
        if c == '"':
            j = i + 1
            while j < n and s[j] != '"':
                if s[j] == "\\":
                    j += 1
                j += 1
            yield i, '"', depth
            i = j + 1
            continue
        if c in "-=" and i + 1 < n and s[i + 1] == ">":
            yield i, c, depth
            yield i + 1, "\x00", depth
            i += 2
            continue
        if c == "<":
            # '<' is a bracket unless used as an operator (" < " / "<=" / "<<"); MIR types never have spaces around '<'
            if i + 1 < n and s[i + 1] in " =":
                yield i, "\x00", depth
                i += 1
                continue
            depth += 1
            yield i, c, depth
            i += 1
            continue
        if c == ">":
            if depth > 0:
                yield i, c, depth
                depth -= 1
            else:
                yield i, "\x00", depth
            i += 1
            continue
        if c in "([{":
            depth += 1
            yield i, c, depth
        elif c in ")]}":
            yield i, c, depth
            depth -= 1
        else:
            yield i, c, depth
        i += 1


def find_top(s, pat, start=0):
    """Index of first occurrence of `pat` in s at bracket depth 0 (pat matched as plain text)."""
    L = len(pat)
    for i, c, d in _scan(s):
        if i < start:
            continue
        if d == 0 and c == pat[0] and s.startswith(pat, i):
            return i
        # closing brackets are reported at their depth (>=1); opening too
    return -1


def split_top(s, sep=","):
    parts = []
    cur = 0
    for i, c, d in _scan(s):
        if c == sep and d == 0:
            parts.append(s[cur:i].strip())
            cur = i + 1
    last = s[cur:].strip()
    if last or parts:
        parts.append(last)
    return [p for p in parts if p != ""]


def matching_close(s, i):
    """s[i] is an opening bracket; return index of its matching close."""
    for j, c, d in _scan(s[i:]):
        if d == 1 and c in ")]}>" and j > 0:
            return i + j
    raise Unsupported(f"unbalanced: {s}")


# ---------------------------------------------------------------------------------------------- places / operands


class Place:
    __slots__ = ("local", "proj")

    def __init__(self, local, proj):
        self.local = local
        self.proj = proj  # tuple of ('deref',) | ('field', idx, ty) | ('downcast', variant) | ('index', Place-local) | ('cindex', n, from_end)

    def __repr__(self):
        return f"P(_{self.local}{''.join(str(p) for p in self.proj)})"


_place_cache = {}


def parse_place(s):
    s = s.strip()
    r = _place_cache.get(s)
    if r is None:
        r = _parse_place(s)
        _place_cache[s] = r
    return r


def _parse_place(s):
    if s.startswith("(fake) "):
        s = s[len("(fake) "):]
    m = re.fullmatch(r"_(\d+)", s)
    if m:
        return Place(int(m.group(1)), ())
    if s.endswith("]"):
        # index projection
        depth = 0
        i = len(s) - 1
        while i >= 0:
            if s[i] == "]":
                depth += 1
            elif s[i] == "[":
                depth -= 1
                if depth == 0:
                    break
            i -= 1
        base = parse_place(s[:i])
        idx = s[i + 1:-1].strip()
        m = re.fullmatch(r"_(\d+)", idx)
        if m:
            return Place(base.local, base.proj + (("index", int(m.group(1))),))
        m = re.fullmatch(r"(-?)(\d+) of (\d+)", idx)
        if m:
            return Place(base.local, base.proj + (("cindex", int(m.group(2)), bool(m.group(1))),))
        m = re.fullmatch(r"(\d+):(-?)(\d+)", idx) or re.fullmatch(r"(\d+)\.\.(-?)(\d+)", idx)
        if m:
            return Place(base.local, base.proj + (("subslice", int(m.group(1)), int(m.group(3)), bool(m.group(2))),))
        raise Unsupported(f"index projection: {s}")
    if s.startswith("(") and matching_close(s, 0) == len(s) - 1:
        inner = s[1:-1].strip()
        if inner.startswith("*"):
            base = parse_place(inner[1:])
            return Place(base.local, base.proj + (("deref",),))
        k = find_top(inner, " as ")
        c = find_top(inner, ": ")
        if k >= 0 and (c < 0 or k < c):
            base = parse_place(inner[:k])
            return Place(base.local, base.proj + (("downcast", inner[k + 4:].strip()),))
        if c >= 0:
            left, ty = inner[:c], inner[c + 2:].strip()
            d = left.rfind(".")
            base = parse_place(left[:d])
            return Place(base.local, base.proj + (("field", int(left[d + 1:]), ty),))
    if s.startswith("*"):
        base = parse_place(s[1:])
        return Place(base.local, base.proj + (("deref",),))
    raise Unsupported(f"place: {s}")


def parse_operand(s):
    s = s.strip()
    if s.startswith("no_retag "):
        s = s[len("no_retag "):]
    if s.startswith("copy "):
        return ("copy", parse_place(s[5:]))
    if s.startswith("move "):
        return ("move", parse_place(s[5:]))
    if s.startswith("const "):
        return ("const", s[6:].strip())
    if re.match(r"[A-Za-z_<]", s) and not s.startswith(("_",)):
        return ("const", s)  # function item / named constant used as a value
    raise Unsupported(f"operand: {s}")


BINOPS = {"Add", "Sub", "Mul", "Div", "Rem", "BitAnd", "BitOr", "BitXor", "Shl", "Shr", "Eq", "Lt", "Le", "Ne", "Ge", "Gt",
          "Cmp", "Offset", "AddWithOverflow", "SubWithOverflow", "MulWithOverflow", "AddUnchecked", "SubUnchecked",
          "MulUnchecked", "ShlUnchecked", "ShrUnchecked"}
UNOPS = {"Not", "Neg", "PtrMetadata"}


def parse_rvalue(s):
    s = s.strip()
    if s.startswith("no_retag "):
        s = s[len("no_retag "):]
    for pre, kind in (("&raw const ", "rawref"), ("&raw mut ", "rawref"), ("&mut ", "ref"), ("&fake shallow ", "ref"), ("&", "ref")):
        if s.startswith(pre):
            return (kind, parse_place(s[len(pre):]))
    if s.startswith(("copy ", "move ", "const ")):
        k = find_top(s, " as ")
        if k >= 0 and s.endswith(")"):
            # cast:  <operand> as <ty> (<Kind>)
            j = s.rfind(" (")
            return ("cast", parse_operand(s[:k]), s[k + 4:j].strip(), s[j + 2:-1])
        return ("use", parse_operand(s))
    if s.endswith(")") and find_top(s, " as ") >= 0 and " (PointerCoercion(" in s:
        k = find_top(s, " as ")
        j = s.rfind(" (PointerCoercion(")
        return ("cast", ("const", s[:k].strip()), s[k + 4:j].strip(), s[j + 2:-1])
    if s.startswith("deref_copy "):
        return ("use", ("copy", parse_place(s[len("deref_copy "):])))
    m = re.match(r"([A-Za-z]+)\(", s)
    if m and s.endswith(")"):
        name = m.group(1)
        inner = s[len(name) + 1:-1]
        if name == "discriminant":
            return ("discriminant", parse_place(inner))
        if name in BINOPS:
            a, b = split_top(inner)
            return ("binop", name, parse_operand(a), parse_operand(b))
        if name in UNOPS:
            return ("unop", name, parse_operand(inner))
        if name == "Len":
            return ("len", parse_place(inner))
        if name == "ShallowInitBox":
            a, b = split_top(inner)
            return ("shallowbox", parse_operand(a), b)
        if name in ("SizeOf", "AlignOf"):
            return ("nullop", name, inner)
    if s == "()":
        return ("aggregate", "tuple", None, [], None)
    if s.startswith("(") and matching_close(s, 0) == len(s) - 1:
        return ("aggregate", "tuple", None, [parse_operand(x) for x in split_top(s[1:-1])], None)
    if s.startswith("[") and s.endswith("]"):
        inner = s[1:-1]
        k = find_top(inner, "; ")
        if k >= 0:
            return ("repeat", parse_operand(inner[:k]), inner[k + 2:].strip())
        return ("aggregate", "array", None, [parse_operand(x) for x in split_top(inner)], None)
    # ADT / closure aggregates
    if s.startswith("{closure@") or s.startswith("{coroutine@") or s.startswith("{async ") or s.startswith("{gen "):
        end = matching_close(s, 0)
        name = s[:end + 1]
        rest = s[end + 1:].strip()
        ops, names = [], []
        if rest.startswith("{"):
            for f in split_top(rest[1:-1]):
                k = find_top(f, ": ")
                names.append(f[:k].strip())
                ops.append(parse_operand(f[k + 2:]))
        elif rest:
            raise Unsupported(f"closure aggregate: {s}")
        return ("aggregate", "closure", name, ops, names)
    # Path { f: op } | Path(op, ..) | Path
    if s.endswith("}"):
        i = len(s) - 1
        depth = 0
        while i >= 0:
            if s[i] == "}":
                depth += 1
            elif s[i] == "{":
                depth -= 1
                if depth == 0:
                    break
            i -= 1
        path = s[:i].strip()
        ops, names = [], []
        for f in split_top(s[i + 1:-1]):
            k = find_top(f, ": ")
            names.append(f[:k].strip())
            ops.append(parse_operand(f[k + 2:]))
        return ("aggregate", "adt", path, ops, names)
    if s.endswith(")"):
        i = len(s) - 1
        depth = 0
        while i >= 0:
            if s[i] == ")":
                depth += 1
            elif s[i] == "(":
                depth -= 1
                if depth == 0:
                    break
            i -= 1
        path = s[:i].strip()
        if path and re.match(r"[A-Za-z_<{]", path):
            return ("aggregate", "adt", path, [parse_operand(x) for x in split_top(s[i + 1:-1])], None)
    if re.match(r"[A-Za-z_<][\w:<>, &'\[\]\(\)\{\}@\./\-\*=+]*$", s):
        return ("aggregate", "adt", s, [], None)
    raise Unsupported(f"rvalue: {s}")


# ---------------------------------------------------------------------------------------------- statements / terminators


def parse_targets(t):
    """'[return: bb2, unwind continue]' / 'unwind continue' / 'bb3' -> dict"""
    t = t.strip()
    out = {}
    if t.startswith("["):
        for part in split_top(t[1:-1]):
            if ": " in part:
                k, v = part.split(": ", 1)
                out[k.strip()] = v.strip()
            else:
                out[part.split(" ")[0]] = part
    else:
        out["_"] = t
    return out


def parse_statement(line):
    s = line.strip()
    if s.endswith(";"):
        s = s[:-1]
    if s == "return":
        return ("return",)
    if s == "resume":
        return ("resume",)
    if s == "unreachable":
        return ("unreachable",)
    if s == "nop":
        return ("nop",)
    if s.startswith("goto -> "):
        return ("goto", s[8:].strip())
    if s.startswith(("StorageLive(", "StorageDead(", "Retag(", "PlaceMention(", "FakeRead(", "AscribeUserType(", "Coverage", "ConstEvalCounter")):
        return ("nop",)
    if s.startswith("Deinit("):
        return ("nop",)
    if s.startswith("switchInt("):
        e = matching_close(s, len("switchInt"))
        op = parse_operand(s[len("switchInt("):e])
        arrow = s.index("->", e)
        tg = s[arrow + 2:].strip()
        cases = []
        otherwise = None
        for part in split_top(tg[1:-1]):
            k, v = part.split(": ")
            if k.strip() == "otherwise":
                otherwise = v.strip()
            else:
                cases.append((int(k.strip()), v.strip()))
        return ("switch", op, cases, otherwise)
    if s.startswith("drop("):
        e = matching_close(s, 4)
        return ("drop", parse_place(s[5:e]), parse_targets(s[s.index("->", e) + 2:]))
    if s.startswith("assert("):
        e = matching_close(s, 6)
        inner = s[7:e]
        parts = split_top(inner)
        c = parts[0]
        neg = False
        if c.startswith("!"):
            neg = True
            c = c[1:]
        msg = parts[1] if len(parts) > 1 else ""
        return ("assert", neg, parse_operand(c), msg, parse_targets(s[s.index("->", e) + 2:]))
    if s.startswith("assume("):
        e = matching_close(s, 6)
        return ("assume", parse_operand(s[7:e]))
    if s.startswith("discriminant("):
        e = matching_close(s, len("discriminant"))
        rest = s[e + 1:].strip()
        if rest.startswith("="):
            return ("setdiscr", parse_place(s[len("discriminant("):e]), int(rest[1:].strip()))
    # assignment or call:  <place> = <rhs> [-> targets]
    k = find_top(s, " = ")
    if k < 0:
        raise Unsupported(f"statement: {s}")
    dest = parse_place(s[:k])
    rhs = s[k + 3:].strip()
    a = find_top(rhs, " -> ")
    if a >= 0:
        callpart = rhs[:a].strip()
        targets = parse_targets(rhs[a + 4:])
        if not callpart.endswith(")"):
            raise Unsupported(f"call: {s}")
        # find matching '(' of the final argument list (parens only, skipping string literals)
        i = len(callpart) - 1
        depth = 0
        in_str = False
        while i >= 0:
            ch = callpart[i]
            if ch == '"' and (i == 0 or callpart[i - 1] != "\\"):
                in_str = not in_str
            elif not in_str:
                if ch == ")":
                    depth += 1
                elif ch == "(":
                    depth -= 1
                    if depth == 0:
                        break
            i -= 1
        func = callpart[:i].strip()
        args = [parse_operand(x) for x in split_top(callpart[i + 1:-1])]
        return ("call", dest, func, args, targets)
    return ("assign", dest, parse_rvalue(rhs))


class Function:
    def __init__(self, name, header, lines):
        self.name = name
        self.header = header
        self._lines = lines
        self._parsed = False
        self.params = []  # list of (local idx, type)
        self.ret = None
        self.local_types = {}
        self.blocks = {}
        self.nargs = 0

    def parse(self):
        if self._parsed:
            return self
        h = self.header
        # header: fn NAME(ARGS) -> RET {     |  const NAME: TY = {   | static ...
        if h.startswith("fn "):
            # locate the parameter list: last top-level '(' group before ' -> ' or ' {'
            body = h[3:]
            end = body.rfind(" {")
            sig = body[:end]
            arrow = find_top_last_arrow(sig)
            if arrow >= 0:
                self.ret = sig[arrow + 4:].strip()
                sig = sig[:arrow]
            else:
                self.ret = "()"
            sig = sig.rstrip()
            # sig ends with ')'
            i = len(sig) - 1
            depth = 0
            while i >= 0:
                if sig[i] == ")":
                    depth += 1
                elif sig[i] == "(":
                    depth -= 1
                    if depth == 0:
                        break
                i -= 1
            for p in split_top(sig[i + 1:-1]):
                k = p.index(": ")
                idx = int(p[:k].strip().lstrip("mut ").lstrip("_"))
                self.params.append((idx, p[k + 2:].strip()))
                self.local_types[idx] = p[k + 2:].strip()
            self.nargs = len(self.params)
        else:
            m = re.match(r"(?:const|static(?: mut)?) .*?: (.*) = \{", h)
            self.ret = m.group(1) if m else None
        self.local_types[0] = self.ret
        cur = None
        for ln in self._lines:
            s = ln.strip()
            if not s or s == "}":
                continue
            m = re.match(r"let (?:mut )?_(\d+): (.*);$", s)
            if m:
                self.local_types[int(m.group(1))] = m.group(2)
                continue
            if s.startswith(("debug ", "scope ")):
                continue
            m = re.match(r"(bb\d+)(?: \(cleanup\))?: \{$", s)
            if m:
                cur = m.group(1)
                self.blocks[cur] = []
                continue
            if cur is None:
                continue
            self.blocks[cur].append(s)
        self._parsed = True
        self._stmts = {}
        return self

    def stmts(self, bb):
        r = self._stmts.get(bb)
        if r is None:
            r = [parse_statement(x) for x in self.blocks[bb]]
            self._stmts[bb] = r
        return r


def find_top_last_arrow(sig):
    """index of the ' -> ' that separates the parameter list from the return type (depth 0, after the final ')')."""
    # scan from the right: the return type may itself contain '->' inside brackets; we need the arrow at depth 0
    best = -1
    for i, c, d in _scan(sig):
        if d == 0 and c == "-" and sig.startswith("-> ", i) and i > 0 and sig[i - 1] == " ":
            # must be preceded by ')'
            if sig[:i].rstrip().endswith(")"):
                best = i - 1
                break
    return best


def load(path):
    """Return dict name -> Function (bodies parsed lazily). Promoteds are keyed 'NAME::promoted[N]'."""
    funcs = {}
    order = []
    with open(path) as f:
        lines = f.read().split("\n")
    i = 0
    n = len(lines)
    hdr = re.compile(r"^(fn |const |static |promoted\[)")
    while i < n:
        ln = lines[i]
        if ln and not ln[0].isspace() and hdr.match(ln) and ln.rstrip().endswith("{"):
            j = i + 1
            while j < n and lines[j] != "}":
                j += 1
            header = ln.rstrip()
            if header.startswith("fn "):
                nm = header[3:]
                # name is up to the '(' that starts the parameter list: find via scanning top-level '('
                k = -1
                for i_, c_, d_ in _scan(nm):
                    if c_ == "(" and d_ == 1:
                        k = i_
                        break
                name = nm[:k]
            elif header.startswith("promoted["):
                m = re.match(r"promoted\[(\d+)\] in (.*?): ", header)
                name = f"{m.group(2)}::promoted[{m.group(1)}]" if m else header
            else:
                h2 = re.sub(r"^(?:const|static(?: mut)?) ", "", header)
                k = find_top(h2, ": ")
                name = h2[:k] if k >= 0 else h2
            fn = Function(name, header, lines[i + 1:j])
            funcs.setdefault(name, fn)
            order.append(name)
            i = j + 1
        elif ln.startswith("const ") and ln.rstrip().endswith(";") and " = const " in ln:
            h2 = ln[len("const "):]
            k = find_top(h2, ": ")
            name = h2[:k]
            rhs = ln[ln.index(" = const ") + 3:].rstrip()
            fn = Function(name, ln.rstrip(), ["bb0: {", "_0 = " + rhs, "return;", "}"])
            funcs.setdefault(name, fn)
            i += 1
        else:
            i += 1
    return funcs
