"""The "message plane" world: a bench of scripted models connected through the real ports, mailboxes and channel code,
run by a cooperative executor model at task-poll granularity.

Real code (interpreted from the MIR, coroutines included): Mailbox/Receiver/Sender/Queue, Output/Requestor, the
event/query broadcasters and BroadcastFuture, TaskSet, CachedRwLock, InputSender/ReplierSender and their map/filter
variants, channel::Sender::send, channel::Receiver::recv, the model task of simulation::add_model (init().await then the
receive loop), ModelFuture, SimInit::{add_model, init}, Simulation::{process_event, process_query, run}.

Environment (trusted base): the executor (spawn = new ready task; run = repeatedly poll one ready task chosen by the
environment until none is ready, then report the in-flight message count like the real executors do), the user models
(handlers are scripts of port operations; each operation is the real `Output::send` / `Requestor::send` coroutine), and the
leaf crates modelled in asyncmodels.py.
"""
import z3

from . import asyncmodels as AM
from .interp import RustPanic, Unsupported
from .models import Models, deref_all, err, mk_dur, mk_time, none, ok, some
from .values import Agg, B, Cell, Coro, I, Opaque, Ptr, clone_value, unit


def ref(v, tag="tmp"):
    return Ptr(Cell(v, tag=tag), (), "ref")


def _s(x):
    if isinstance(x, Opaque) and x.tag in ("String", "str"):
        s = x.data["s"]
        return s[1:-1] if x.tag == "str" and s.startswith('"') else s
    raise Unsupported(f"not a string token: {x!r}")


class Task:
    __slots__ = ("cell", "state", "woken", "label")

    def __init__(self, fut, label):
        self.cell = Cell(fut, tag=f"task:{label}")
        self.state = "ready"
        self.woken = False
        self.label = label


class TaskWorld:
    """bench: dict(
         models=[dict(name, cap)],
         outputs={"i.k": [dict(to=j, port=p, kind='plain'|'map'|'filter')]},       # event output k of model i
         requestors={"i.k": [dict(to=j, port=p, kind='plain'|'filter')]},           # requestor k of model i
         handlers={"j.p": [op, ...]}, init={"i": [op, ...]},
         op = ["send", k] | ["query", k] | ["yield"]
       )"""

    def __init__(self, it, bench, permute=True, max_polls=400):
        self.it = it
        it.env["world"] = self
        self.bench = bench
        self.permute = permute
        self.max_polls = max_polls
        self.tasks = []
        self.log = []            # observation stream (python tuples)
        self.msg_count = 0
        self.next_msg = 1
        self.next_hid = 1
        self.cur_ctx = ("driver", 0)
        self.polling = None
        self.outputs = {}
        self.requestors = {}
        self.filter_choices = {}
        self.install_models(it.models)
        self.build()

    # ------------------------------------------------------------------ construction through the real API
    def build(self):
        it = self.it
        b = self.bench
        n = len(b["models"])
        self.mailboxes = [it.call_fn("Mailbox", None, "with_capacity", [I(m.get("cap", 1), "usize")]) for m in b["models"]]
        self.addresses = [it.call_fn("Mailbox", None, "address", [ref(mb, "mbox")]) for mb in self.mailboxes]
        # the handle held by the model is the port itself, or a clone made before / after the connections were added
        # through the original (bench['handles'][key] = 'orig' | 'clone-before' | 'clone-after'); connections flagged
        # `late` are added between driver commands through a fresh clone of the held handle (connect_late)
        for table, ty, store in ((b.get("outputs", {}), "Output", self.outputs), (b.get("requestors", {}), "Requestor", self.requestors)):
            for key, conns in table.items():
                port = it.call_fn(ty, "Default", "default", [])
                cell = Cell(port, tag=f"{ty}:{key}")
                how = b.get("handles", {}).get(key, "orig")
                held = cell
                if how == "clone-before":
                    held = Cell(it.call_fn(ty, "Clone", "clone", [Ptr(cell, (), "ref")]), tag=f"{ty}-clone:{key}")
                for ci, c in enumerate(conns):
                    if not c.get("late"):
                        self.connect(ty, key, ci, c, cell)
                if how == "clone-after":
                    held = Cell(it.call_fn(ty, "Clone", "clone", [Ptr(cell, (), "ref")]), tag=f"{ty}-clone:{key}")
                store[key] = held
        init = it.call_fn("SimInit", None, "with_num_threads", [I(1, "usize")])
        for i, m in enumerate(b["models"]):
            if m.get("parent") is None:
                # sub-models (m['parent'] = index of the parent) are added by the parent's ProtoModel::build through
                # BuildContext::add_submodel (see the `build` model below)
                init = it.call_fn("SimInit", None, "add_model", [init, Opaque("Model", id=i), self.mailboxes[i], Opaque("String", s=m["name"])])
        self.cur_ctx = ("init", 0)
        self.log.append(("cmd-begin", "init"))
        r = it.call_fn("SimInit", None, "init", [init, mk_time(0)])
        self.log.append(("cmd-end", "init", self.describe_result(r)))
        self.init_result = r
        if r.variant == "Ok":
            self.sim_cell = Cell(r.fields[0].fields[0], tag="sim")
        else:
            self.sim_cell = None

    def connect(self, ty, key, ci, c, cell):
        it = self.it
        addr = it.call_fn("Address", "Clone", "clone", [ref(self.addresses[c["to"]], "addr")])
        p = Ptr(cell, (), "ref")
        kind = c.get("kind", "plain")
        if ty == "Output":
            f = Opaque("InputFn", model=c["to"], port=c.get("port", 0))
            if kind == "plain":
                it.call_fn("Output", None, "connect", [p, f, addr])
            elif kind == "map":
                it.call_fn("Output", None, "map_connect", [p, Opaque("MapFn", conn=f"{key}#{ci}"), f, addr])
            elif kind == "filter":
                it.call_fn("Output", None, "filter_map_connect", [p, Opaque("FilterFn", conn=f"{key}#{ci}"), f, addr])
            else:
                raise Unsupported(kind)
        else:
            f = Opaque("ReplierFn", model=c["to"], port=c.get("port", 0))
            if kind == "plain":
                it.call_fn("Requestor", None, "connect", [p, f, addr])
            elif kind == "filter":
                it.call_fn("Requestor", None, "filter_map_connect", [p, Opaque("FilterFn", conn=f"{key}#{ci}"), Opaque("ReplyMapFn", conn=f"{key}#{ci}"), f, addr])
            else:
                raise Unsupported(kind)

    def connect_late(self, ty, key, ci):
        """between two driver commands: add connection ci of the port through a *fresh clone* of the handle the model holds"""
        it = self.it
        table = self.bench["outputs" if ty == "Output" else "requestors"]
        store = self.outputs if ty == "Output" else self.requestors
        clone = Cell(it.call_fn(ty, "Clone", "clone", [Ptr(store[key], (), "ref")]), tag="late-clone")
        self.connect(ty, key, ci, table[key][ci], clone)
        it.drop_value(clone.val)
        self.log.append(("connect", key, ci))

    def describe_result(self, r):
        if r.variant == "Ok":
            return ("Ok",)
        e = r.fields[0]
        if e.variant == "Deadlock":
            infos = []
            for d in e.fields[0].fields:
                infos.append((_s(d.fields[0]), d.fields[1].concrete()))
            return ("Deadlock", tuple(sorted(infos)))
        if e.variant == "MessageLoss":
            return ("MessageLoss", e.fields[0].concrete())
        return (e.variant,)

    # ------------------------------------------------------------------ driver commands
    def process_event(self, cmd_idx, model, port):
        it = self.it
        self.cur_ctx = ("driver", cmd_idx)
        mid = self.new_msg(("driver", cmd_idx), ("direct", model, port))
        self.log.append(("cmd-begin", cmd_idx))
        addr = it.call_fn("Address", "Clone", "clone", [ref(self.addresses[model], "addr")])
        r = it.call_fn("Simulation", None, "process_event", [Ptr(self.sim_cell, (), "ref"), Opaque("InputFn", model=model, port=port), self.payload(mid), addr])
        d = self.describe_result(r)
        self.log.append(("cmd-end", cmd_idx, d))
        return d

    def new_msg(self, ctx, via):
        m = self.next_msg
        self.next_msg += 1
        self.log.append(("send-begin", m, ctx, via))
        return m

    def payload(self, mid):
        """u64 payload: message id in the high half (concrete), symbolic data in the low half"""
        d = self.it.sym(f"d{mid}", "u32")
        return I(z3.Concat(z3.BitVecVal(mid, 32), d.v), "u64")

    @staticmethod
    def mid_of(v):
        if not isinstance(v, I):
            return None
        if v.c is not None:
            return v.c >> 32
        s = z3.simplify(z3.Extract(63, 32, v.v))
        return s.as_long() if z3.is_bv_value(s) else None

    def pick(self, n, label):
        """environment choice of one of n alternatives: a symbolic index decided by the solver"""
        if n <= 1:
            return 0
        self.npick = getattr(self, "npick", 0) + 1
        v = self.it.sym(f"pick{self.npick}", "u8")
        self.it.assume(z3.ULT(v.v, n))
        return self.it.concretize(v, label)

    # ------------------------------------------------------------------ executor model
    def wake(self, ti):
        t = self.tasks[ti]
        if t.state == "idle":
            t.state = "ready"
        elif t.state == "polling":
            t.woken = True

    def run_tasks(self):
        it = self.it
        polls = 0
        while True:
            ready = [i for i, t in enumerate(self.tasks) if t.state == "ready"]
            if not ready:
                break
            k = self.pick(len(ready), "task-pick") if self.permute else 0
            ti = ready[k]
            t = self.tasks[ti]
            polls += 1
            if polls > self.max_polls:
                raise Unsupported("executor model: poll bound reached")
            t.state = "polling"
            t.woken = False
            self.polling = ti
            cx = Opaque("Context", waker=Opaque("Waker", kind="task", task=ti))
            self.log.append(("poll", ti))
            r = it.call("<T as Future>::poll", [Agg("Pin", [Ptr(t.cell, (), "ref")]), ref(cx, "cx")])
            self.polling = None
            if r.variant == "Ready":
                t.state = "done"
                it.drop_value(t.cell.val)
            else:
                t.state = "ready" if t.woken else "idle"

    # ------------------------------------------------------------------ environment models
    def install_models(self, M):
        w = self
        AM.install(M, w)

        def spawn(it, cal, args):
            w.tasks.append(Task(args[1], f"t{len(w.tasks)}"))
            return unit()

        def run(it, cal, args):
            w.run_tasks()
            if w.msg_count != 0:
                if w.msg_count < 0:
                    raise RustPanic("negative in-flight message count")
                w.log.append(("unprocessed", w.msg_count))
                n = w.msg_count
                w.msg_count = 0
                return err(Agg("ExecutorError", [I(n, "usize")], variant="UnprocessedMessages"))
            return ok(unit())

        def build(it, cal, args):
            # ProtoModel::build of a scripted model: adds its sub-models (in index order) through the real
            # BuildContext::add_submodel, which builds the qualified name and goes through the same add_model
            proto, bcx = args[0], args[1]
            me = proto.data["id"]
            for c, m in enumerate(w.bench["models"]):
                if m.get("parent") == me:
                    it.call_fn("BuildContext", None, "add_submodel", [bcx, Opaque("Model", id=c), w.mailboxes[c], Opaque("String", s=m["name"])])
            return proto

        def model_init(it, cal, args):
            m = args[0]
            # the name the model sees in its context (Context::name): first field of the real Context value
            cxv = deref_all(it, args[1])
            name = _s(cxv.fields[0]) if isinstance(cxv, Agg) and cxv.fields and isinstance(cxv.fields[0], Opaque) else None
            return Opaque("ScriptFut", kind="init", model=m.data["id"], hid=None, script=w.bench.get("init", {}).get(str(m.data["id"]), []), pc=0, cur=None,
                          result=Agg("InitializedModel", [m]), started=False, arg=None, cxname=name)

        def input_call(it, cal, args):
            f, model, arg = args[0], args[1], args[2]
            mid = w.mid_of(arg)
            j, p = f.data["model"], f.data["port"]
            return Opaque("ScriptFut", kind="handler", model=j, port=p, hid=None, script=w.bench.get("handlers", {}).get(f"{j}.{p}", []), pc=0, cur=None,
                          result=unit(), started=False, arg=mid)

        def replier_call(it, cal, args):
            f, model, arg = args[0], args[1], args[2]
            mid = w.mid_of(arg)
            j, p = f.data["model"], f.data["port"]
            # reply = 1000 * (replier model + 1) + request id: identifies the replier and the (mapped) request
            return Opaque("ScriptFut", kind="replier", model=j, port=p, hid=None, script=w.bench.get("handlers", {}).get(f"{j}.{p}", []), pc=0, cur=None,
                          result=I(1000 * (j + 1) + (mid or 0), "u64"), started=False, arg=mid)

        def script_poll(it, cal, args):
            _, f = it.future_target(args[0])
            d = f.data
            if not d["started"]:
                d["started"] = True
                d["hid"] = w.next_hid
                w.next_hid += 1
                if d["kind"] == "init":
                    w.log.append(("init", d["model"], d["hid"], d.get("cxname")))
                else:
                    w.log.append(("handle", d["model"], d["port"], d["arg"], d["hid"], d["kind"]))
            ctx = ("h", d["hid"])
            def start(op):
                """-> sub-operation state: the real port coroutine (or a yield) of one script operation"""
                if op[0] == "send":
                    key = f"{d['model']}.{op[1]}"
                    mid = w.new_msg(ctx, ("output", key))
                    return dict(op=op, mid=mid, done=False, fut=it.call_fn("Output", None, "send", [Ptr(w.outputs[key], (), "ref"), w.payload(mid)]))
                if op[0] in ("query", "query-first"):
                    key = f"{d['model']}.{op[1]}"
                    mid = w.new_msg(ctx, ("requestor", key))
                    return dict(op=op, mid=mid, done=False, fut=it.call_fn("Requestor", None, "send", [Ptr(w.requestors[key], (), "ref"), w.payload(mid)]))
                if op[0] == "yield":
                    return dict(op=op, mid=None, done=False, fut=Opaque("YieldOnce", done=[False]))
                raise Unsupported(f"script op {op}")

            def step(s):
                """poll one sub-operation; True when it is complete"""
                if s["done"]:
                    return True
                cell = Cell(s["fut"], tag="opfut")
                r = it.call("<T as Future>::poll", [Agg("Pin", [Ptr(cell, (), "ref")]), args[1]])
                if r.variant != "Ready":
                    return False
                op = s["op"]
                if op[0] == "send":
                    w.log.append(("send-end", s["mid"], ctx))
                elif op[0] in ("query", "query-first"):
                    replies = []
                    itv = r.fields[0]
                    holder = ref(itv, "replyiter")
                    for _ in range(1 if op[0] == "query-first" else 16):
                        nx = it.call("<I as Iterator>::next", [holder])
                        if nx.variant != "Some":
                            break
                        replies.append(nx.fields[0].concrete())
                    it.drop_value(itv)
                    w.log.append(("query-end" if op[0] == "query" else "query-first-end", s["mid"], ctx, tuple(replies)))
                s["done"] = True
                return True

            while d["pc"] < len(d["script"]):
                op = d["script"][d["pc"]]
                if d["cur"] is None:
                    # ["join", opA, opB, ..]: the operations are polled concurrently by the handler (like futures::join!):
                    # every poll of the handler polls every unfinished one, whichever of them caused the wake-up
                    d["cur"] = [start(o) for o in op[1:]] if op[0] == "join" else [start(op)]
                alldone = True
                for s in d["cur"]:
                    if not step(s):
                        alldone = False
                if not alldone:
                    return AM.pending()
                d["cur"] = None
                d["pc"] += 1
            if d["kind"] != "init":
                w.log.append(("handled", d["hid"]))
            return AM.ready(d["result"])

        def yield_poll(it, cal, args):
            _, f = it.future_target(args[0])
            if f.data["done"][0]:
                return AM.ready(unit())
            f.data["done"][0] = True
            AM_wake = it.models.lookup("Waker::wake_by_ref")
            wk = it.models.lookup("Context::waker")(it, cal, [args[1]])
            AM_wake(it, cal, [wk])
            return AM.pending()

        def map_call(it, cal, args):
            # map: id -> id (the connection is identified by the sender object; the oracle only needs the id)
            v = deref_all(it, args[1].fields[0]) if isinstance(args[1], Agg) else deref_all(it, args[1])
            return v

        def filter_call(it, cal, args):
            f = deref_all(it, args[0])
            v = deref_all(it, args[1].fields[0]) if isinstance(args[1], Agg) else deref_all(it, args[1])
            mid = w.mid_of(v)
            # the connection accepts a message iff the low bit of its (symbolic) data is set: decided by the solver
            keep = it.branch((v.v & 1) == 1, "filter")
            w.log.append(("filter", f.data["conn"], mid, keep))
            return some(v) if keep else none()

        def reply_map(it, cal, args):
            return args[1].fields[0] if isinstance(args[1], Agg) and args[1].name == "tuple" else args[1]

        def clone_tok(it, cal, args):
            return deref_all(it, args[0])

        def with_mut(it, cal, args):
            cellp = it.deref(args[0])
            return it.call_closure(args[1], Agg("tuple", [Ptr(cellp.cell, cellp.path + (("f", 0),), "raw")]))

        def rb_deref(it, cal, args):
            b = it.load(args[0])
            b = it.deref(b)
            return Ptr(b.cell, b.path, "ref")

        def md_take(it, cal, args):
            v = it.load(args[0])
            return v.fields[0] if isinstance(v, Agg) and v.name == "ManuallyDrop" else v

        def tok_closure(tag, fn):
            M.closure_handlers.append((lambda env, tag=tag: isinstance(env, Opaque) and env.tag == tag,
                                       lambda it, env, argtuple, fn=fn: fn(it, None, [env, argtuple])))
        tok_closure("ReplyMapFn", reply_map)
        tok_closure("MapFn", map_call)
        tok_closure("FilterFn", filter_call)

        M.extra.update({
            "UnsafeCell::with_mut": with_mut, "UnsafeCell::with": with_mut,
            "<Vec as Into>::into": lambda it, cal, args: it.alloc(Agg("array", args[0].fields), tag="boxslice", kind="box"),
            "<Vec as From>::from": lambda it, cal, args: args[0],
            "ManuallyDrop::take": md_take,
            "<RecycleBox as Deref>::deref": rb_deref, "<RecycleBox as DerefMut>::deref_mut": rb_deref,
            "Executor::spawn_and_forget": spawn, "executor::Executor::spawn_and_forget": spawn,
            "Executor::run": run, "executor::Executor::run": run,
            "Executor::new_single_threaded": lambda it, cal, args: Opaque("Executor"),
            "executor::Executor::new_single_threaded": lambda it, cal, args: Opaque("Executor"),
            "<Model as ProtoModel>::build": build, "<Model as Model>::init": model_init,
            "<InputFn as InputFn>::call": input_call, "<ReplierFn as ReplierFn>::call": replier_call,
            "<ScriptFut as Future>::poll": script_poll, "<YieldOnce as Future>::poll": yield_poll,
            "<InputFn as Clone>::clone": clone_tok, "<ReplierFn as Clone>::clone": clone_tok, "<MapFn as Clone>::clone": clone_tok,
            "<FilterFn as Clone>::clone": clone_tok, "<ReplyMapFn as Clone>::clone": clone_tok,
            "<MapFn as Fn>::call": map_call, "<FilterFn as Fn>::call": filter_call, "<ReplyMapFn as Fn>::call": reply_map,
            "<Address as Into>::into": lambda it, cal, args: args[0] if isinstance(args[0], Agg) else it.call_fn("Address", "Clone", "clone", [args[0]]),
            "<String as ToString>::to_string": lambda it, cal, args: Opaque("String", s=_s(deref_all(it, args[0]))),
            "<&str as Into>::into": lambda it, cal, args: Opaque("String", s=_s(deref_all(it, args[0]))),
            "<String as Add>::add": lambda it, cal, args: Opaque("String", s=_s(deref_all(it, args[0])) + _s(deref_all(it, args[1]))),
            "<String as Into>::into": lambda it, cal, args: args[0],
            "<String as Clone>::clone": lambda it, cal, args: deref_all(it, args[0]),
            "<NoClock as Clock>::synchronize": lambda it, cal, args: Agg("SyncStatus", [], variant="Synchronized"),
        })


def make_models():
    return Models()
