"""Value domain of the MIR symbolic executor: concrete heap shape, symbolic scalars (z3 bit-vectors / booleans)."""
import z3

INT_TYPES = {
    "u8": (8, False), "u16": (16, False), "u32": (32, False), "u64": (64, False), "u128": (128, False), "usize": (64, False),
    "i8": (8, True), "i16": (16, True), "i32": (32, True), "i64": (64, True), "i128": (128, True), "isize": (64, True),
    "char": (32, False),
}


class I:
    """Integer scalar: Rust type name + either a concrete value (python int, kept out of z3 for speed) or a z3
    bit-vector term.  `.v` always yields the z3 term (built lazily for concrete values)."""
    __slots__ = ("_v", "ty", "prov", "c")

    def __init__(self, v, ty, prov=None):
        w, _ = INT_TYPES[ty]
        if isinstance(v, int):
            self.c = v & ((1 << w) - 1)
            self._v = None
        else:
            self.c = None
            self._v = v
        self.ty = ty
        self.prov = prov  # provenance: (time value, 'secs'|'nanos') for components of a modelled timestamp

    @property
    def v(self):
        if self._v is None:
            self._v = _bvval(self.c, INT_TYPES[self.ty][0])
        return self._v

    @property
    def width(self):
        return INT_TYPES[self.ty][0]

    @property
    def signed(self):
        return INT_TYPES[self.ty][1]

    def concrete(self):
        if self.c is not None:
            x = self.c
        else:
            s = z3.simplify(self._v)
            if not z3.is_bv_value(s):
                return None
            x = s.as_long()
            self.c = x
        if self.signed and x >= 1 << (self.width - 1):
            x -= 1 << self.width
        return x

    def __repr__(self):
        c = self.concrete()
        return f"{c}_{self.ty}" if c is not None else f"<{self.v}>:{self.ty}"


_bv_cache = {}


def _bvval(c, w):
    k = (c, w)
    r = _bv_cache.get(k)
    if r is None:
        r = z3.BitVecVal(c, w)
        if len(_bv_cache) < 100000:
            _bv_cache[k] = r
    return r


class Z:
    """Mathematical integer scalar (z3 Int) — used only inside *modelled* external types (total nanoseconds of a
    tai_time::TaiTime / std::time::Duration); MIR code never computes on it directly."""
    __slots__ = ("v",)

    def __init__(self, v):
        if isinstance(v, int):
            v = z3.IntVal(v)
        self.v = v

    def concrete(self):
        s = z3.simplify(self.v)
        return s.as_long() if z3.is_int_value(s) else None

    signed = True
    width = 0

    def __repr__(self):
        c = self.concrete()
        return f"{c}z" if c is not None else f"<{self.v}>z"


class B:
    """Boolean scalar (python bool when concrete, z3 Bool term otherwise; `.v` always yields the z3 term)."""
    __slots__ = ("_v", "c")

    def __init__(self, v):
        if isinstance(v, bool):
            self.c = v
            self._v = None
        else:
            self.c = None
            self._v = v

    @property
    def v(self):
        if self._v is None:
            self._v = _TRUE if self.c else _FALSE
        return self._v

    def concrete(self):
        if self.c is not None:
            return self.c
        s = z3.simplify(self._v)
        if z3.is_true(s):
            self.c = True
        elif z3.is_false(s):
            self.c = False
        return self.c

    def __repr__(self):
        c = self.concrete()
        return str(c).lower() if c is not None else f"<{self.v}>"


_TRUE = z3.BoolVal(True)
_FALSE = z3.BoolVal(False)


class Agg:
    """Struct / tuple / enum variant / closure environment / array.  `variant` is the variant *name* for enums."""
    __slots__ = ("name", "variant", "fields", "meta")

    def __init__(self, name, fields, variant=None, meta=None):
        self.name = name
        self.variant = variant
        self.fields = list(fields)
        self.meta = meta

    def __repr__(self):
        v = f"::{self.variant}" if self.variant is not None else ""
        return f"{self.name}{v}{self.fields}"


class Coro(Agg):
    """Coroutine (async fn / async block) value: `fields` are the captured upvars, `state` the resume-point
    discriminant (0 unresumed, 1 returned, 2 panicked, >= 3 suspended), `vars` the saved locals per suspend variant,
    `body` the name of the MIR resume function."""
    __slots__ = ("state", "vars", "body")

    def __init__(self, name, fields, meta=None, body=None):
        Agg.__init__(self, name, fields, None, meta)
        self.state = 0
        self.vars = {}
        self.body = body

    def __repr__(self):
        return f"Coro<{self.body} state={self.state}>"


class CEnum:
    """Field-less enum with a (possibly symbolic) discriminant, e.g. cmp::Ordering."""
    __slots__ = ("name", "disc")

    def __init__(self, name, disc):
        self.name = name
        self.disc = disc  # I

    def __repr__(self):
        return f"{self.name}#{self.disc}"


class Cell:
    """A memory cell (local variable or heap allocation)."""
    __slots__ = ("val", "tag", "id")
    _n = 0

    def __init__(self, val=None, tag=""):
        self.val = val
        self.tag = tag

    def __repr__(self):
        return f"Cell[{self.tag}]"


class Ptr:
    """Reference / raw pointer / Box / Arc: a pointer to a location (cell + path of concrete field/index steps)."""
    __slots__ = ("cell", "path", "kind")

    def __init__(self, cell, path=(), kind="ref"):
        self.cell = cell
        self.path = tuple(path)
        self.kind = kind

    def __repr__(self):
        return f"&{self.kind}{self.cell.tag}{list(self.path) if self.path else ''}"

    def same_loc(self, other):
        return isinstance(other, Ptr) and self.cell is other.cell and self.path == other.path


class Opaque:
    """Environment token (executor handle, leaf future, generator closure, payload...)."""
    __slots__ = ("tag", "data")

    def __init__(self, tag, **data):
        self.tag = tag
        self.data = data

    def __repr__(self):
        return f"Opaque<{self.tag} {self.data}>"


class FnItem:
    __slots__ = ("name",)

    def __init__(self, name):
        self.name = name

    def __repr__(self):
        return f"fn {self.name}"


class Moved:
    """Marker for a moved-out / uninitialised location."""
    __slots__ = ()

    def __repr__(self):
        return "<moved>"


MOVED = Moved()


def unit():
    return Agg("tuple", [])


def clone_value(v):
    """Value copy (by-value semantics for aggregates; pointers are copied as pointers)."""
    if isinstance(v, Coro):
        return v  # coroutines are never Copy: a `copy` of one can only be a move in disguise
    if isinstance(v, Agg):
        return Agg(v.name, [clone_value(f) for f in v.fields], v.variant, v.meta)
    return v
