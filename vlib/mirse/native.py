"""Native side of the driver scenarios: build the Rust script runner against the overlay copy of the real crate,
render scripts with concrete parameters, run them through the public API and parse the observation stream."""
import os
import re
import shutil
import subprocess

import z3

from .. import common as C
from .driver import Obs

RUNNER_SRC = os.path.join(C.VERIF, "harness", "native", "verif_runner.rs")


def build_runner(work, log=True):
    """Returns path of the test executable built from the *current* /repo working tree (overlay copy)."""
    crate = work.sync_overlay("ovn")
    shutil.copy(RUNNER_SRC, os.path.join(crate, "tests", "verif_runner.rs"))
    target = work.sub("native-target")
    rc, out = C.run(["cargo", "test", "--offline", "--test", "verif_runner", "--no-run", "--target-dir", target],
                    cwd=crate, timeout=1500, log_path=work.sub("native-build.log"))
    m = re.findall(r"Executable tests/verif_runner\.rs \(([^)]+)\)", out)
    if rc != 0 or not m:
        return None, out
    exe = m[-1]
    if not os.path.isabs(exe):
        exe = os.path.join(crate, exe)
    return exe, out


def render(script, vals, opts=None):
    opts = opts or {}
    g = lambda k: int(vals.get(k, 0))
    lines = [f"t0 {g('t0.t')}"]
    lines.append(f"tol {g('tol.d')}" if opts.get("tolerance") else "tol none")
    if opts.get("pending"):
        lines.append("capacity 1")  # mailboxes of capacity 1: coinciding sends to one model have to suspend
    for k, s in enumerate(opts.get("clock") or []):
        if s == "lag":
            lines.append(f"clock {k} lag {g(f'lag{k}.d')}")
        elif isinstance(s, dict) and s["op"] == "sched":
            d = g(f"k{k}.t") if s["dl"] == "abs" else g(f"k{k}.d")
            lines.append(f"clock {k} sched {s['kind']} {s['dl']} {d} {g(f'k{k}.p')} {s['id']}")
    for i, c in enumerate(script):
        op = c["op"]
        if op == "sched":
            d = g(f"c{i}.t") if c["dl"] == "abs" else g(f"c{i}.d")
            eff = c.get("effect")
            if not eff:
                es = "none"
            elif eff["op"] == "cancel":
                es = f"cancel {eff['key']}"
            elif eff["op"] == "panic":
                es = "panic"
            else:
                ed = g(f"e{i}.t") if eff["dl"] == "abs" else g(f"e{i}.d")
                es = f"sched {eff['kind']} {eff['dl']} {ed} {g(f'e{i}.p')} {eff['id']}"
            lines.append(f"sched {c['kind']} {c['origin']} {c['dl']} {d} {g(f'c{i}.p')} {c['id']} {c.get('api', 'action')} {es}")
        elif op in ("cancel", "dropauto"):
            lines.append(f"{op} {c['key']}")
        elif op == "step":
            lines.append("step")
        elif op == "until":
            d = g(f"c{i}.t") if c["dl"] == "abs" else g(f"c{i}.d")
            lines.append(f"until {c['dl']} {d}")
        elif op == "process":
            lines.append(f"process {c['id']}")
        else:
            raise ValueError(op)
    return "\n".join(lines) + "\n"


def _parse_res(toks):
    if toks[0] == "Ok":
        return ("Ok",)
    if toks[0] == "Err":
        var = toks[1]
        payload = None
        if var == "OutOfSync" and len(toks) > 2:
            payload = z3.IntVal(int(toks[2]))
        elif len(toks) > 2:
            payload = " ".join(toks[2:])
        return ("Err", var, payload)
    return ("Err", toks[0], " ".join(toks[1:]))


def run_native(exe, text, path, threads=1, timeout=20):
    """Returns (obs list, raw output).  A command that never returns is marked aborted='hang'."""
    with open(path, "w") as f:
        f.write(text)
    env = C.env_offline({"VERIF_SCRIPT": path, "VERIF_THREADS": str(threads), "RUST_BACKTRACE": "0"})
    try:
        p = subprocess.run([exe, "--nocapture", "--test-threads", "1"], env=env, stdout=subprocess.PIPE, stderr=subprocess.STDOUT,
                           timeout=timeout, text=True, errors="replace")
        out, timed_out = p.stdout, False
    except subprocess.TimeoutExpired as e:
        out = e.stdout or ""
        if isinstance(out, bytes):
            out = out.decode(errors="replace")
        timed_out = True
    obs = []
    cur = None
    inside = False
    for ln in out.splitlines():
        if "VERIF-TRACE-BEGIN" in ln:
            inside = True
            continue
        if "VERIF-TRACE-END" in ln:
            inside = False
            continue
        if not inside:
            continue
        t = ln.split()
        if not t:
            continue
        if t[0] == "begin":
            cur = Obs()
            cur.terminated = None
            cur.op = t[2]
            obs.append(cur)
        elif t[0] == "ev" and cur is not None:
            k = t[2]
            if k == "fire":
                cur.events.append(("fire", int(t[3]), z3.IntVal(int(t[4]))))
            elif k == "sync":
                cur.events.append(("sync", z3.IntVal(int(t[3]))))
            elif k == "esched":
                cur.events.append(("esched", int(t[3]), _parse_res(t[4:])))
            elif k == "csched":
                cur.events.append(("csched", int(t[3]), _parse_res(t[4:])))
            elif k == "ecancel":
                cur.events.append(("ecancel", int(t[3])))
        elif t[0] == "res" and cur is not None:
            cur.res = _parse_res(t[2:])
        elif t[0] == "time" and cur is not None:
            cur.time = z3.IntVal(int(t[2]))
    if obs and (obs[-1].res is None or obs[-1].time is None):
        if timed_out:
            obs[-1].aborted = "hang"
        else:
            m = re.search(r"panicked at ([^\n]*)\n([^\n]*)", out)
            obs[-1].aborted = "panic:" + (m.group(2) if m else "test process died")
    return obs, out
