"""Driver-logic scenarios (C01, C07, C08, C09, C10, C11, C18): scripts of driver commands with symbolic numeric
parameters, executed (a) symbolically by MIRSE on the real MIR and (b) natively through the public API by the Rust
script runner; one oracle (`oracle`) judges the observation stream of either.

A script is a list of command dicts:
  {'op':'sched','kind':'once|periodic|keyed|kperiodic','origin':0|1|2,'dl':'abs|rel','api':'action|event','id':int,
   'effect': None | {'op':'sched',...} | {'op':'cancel','key':id} | {'op':'panic'}}
  {'op':'cancel','key':id} | {'op':'dropauto','key':id}
  {'op':'step'} | {'op':'until','dl':'abs|rel'} | {'op':'process','kind':'once','id':int}
Numeric parameters of command i are the symbolic inputs c{i}.s / c{i}.n (deadline) and c{i}.ps / c{i}.pn (period);
effects of command i use e{i}.s / e{i}.n / e{i}.ps / e{i}.pn.
"""
import z3

from .interp import LoopBound, PathAbort, RustPanic, Unsupported
from .models import mk_dur, mk_time, deref_all, NANOS
from .simworld import SimWorld, ref
from .values import Agg, B, I, Opaque, Ptr, Z

FATAL = {"Deadlock", "MessageLoss", "NoRecipient", "Panic", "Timeout", "OutOfSync"}


# ----------------------------------------------------------------------------------------------- time helpers (spec side)
# A time / duration on the specification side is ONE z3 Int: its total number of nanoseconds (see models.py).


def T(v):
    """Agg TaiTime/Duration -> total nanoseconds (z3 Int)"""
    return v.fields[0].v


def t_eq(a, b):
    return a == b


def t_lt(a, b):
    return a < b


def t_le(a, b):
    return a <= b


def d_is_zero(d):
    return d == 0


def d_gt(a, b):
    return a > b


def t_add(t, d):
    """spec: t + d (paths on which the implementation's addition overflows are outside the claim)"""
    from .models import time_add_expr
    return time_add_expr(t, d)[0]


# ----------------------------------------------------------------------------------------------- parameters


class SymParams:
    """Symbolic parameters bound to an Interp (names are stable across paths). Every time/duration/period is one
    symbolic integer (total nanoseconds) constrained to the full range of the real type."""

    def __init__(self, it):
        self.it = it

    def _z(self, name, lo, hi):
        first = name not in self.it.inputs
        z = self.it.sym(name, "int")
        if first:
            self.it.assume(z3.And(z.v >= lo, z.v <= hi))
            conc = self.it.env.get("concrete")
            if conc is not None:
                self.it.assume(z.v == int(conc.get(name, 0)))
        return z.v

    def time(self, name):
        from .models import T_MAX, T_MIN
        return self._z(name + ".t", T_MIN, T_MAX)

    def dur(self, name):
        from .models import D_MAX
        return self._z(name + ".d", 0, D_MAX)

    def period(self, name):
        from .models import D_MAX
        return self._z(name + ".p", 0, D_MAX)


class ConcParams:
    """Concrete parameters (from a solver model or a random script): dict name -> int (total nanoseconds)."""

    def __init__(self, vals):
        self.vals = vals

    def time(self, name):
        return z3.IntVal(self.vals.get(name + ".t", 0))

    def dur(self, name):
        return z3.IntVal(self.vals.get(name + ".d", 0))

    def period(self, name):
        return z3.IntVal(self.vals.get(name + ".p", 0))


def as_time_val(t):
    return mk_time(Z(t))


def as_dur_val(d):
    return mk_dur(Z(d))


# ----------------------------------------------------------------------------------------------- symbolic execution of a script


class Obs:
    """Observation of one command."""

    def __init__(self):
        self.res = None      # ('Ok',) | ('Err', variant, payload)
        self.time = None     # (s, n) after the command
        self.events = []     # ('fire', id, t) ('sync', t) ('run-begin',) ('run-end',) ('timewrite', t) ('esched', owner_cmd, res) ('ecancel', key) ('spawn', desc)
        self.aborted = None  # 'loopbound' | 'panic:<msg>'


def res_of(v):
    if v.variant == "Ok":
        return ("Ok",)
    e = v.fields[0]
    payload = None
    if isinstance(e, Agg):
        if e.name in ("ExecutionError", "SchedulingError"):
            var = e.variant
            if e.fields:
                payload = e.fields[0]
        else:
            var = e.variant or e.name
    else:
        var = str(e)
    return ("Err", var, payload)


def build_action(w, P, kind, lid, pname, keys, api="action"):
    it = w.it
    if kind == "once":
        return w.action_once(lid), None
    if kind == "periodic":
        p = P.period(pname)
        return w.action_periodic(lid, as_dur_val(p)), p
    if kind == "keyed":
        key = w.new_key()
        keys[lid] = key
        return w.action_keyed_once(lid, key), None
    if kind == "kperiodic":
        p = P.period(pname)
        key = w.new_key()
        keys[lid] = key
        return w.action_keyed_periodic(lid, as_dur_val(p), key), p
    raise ValueError(kind)


def effect_origin(owner_origin):
    """origin id of a request issued by the handler of an action: handlers of global/model-a actions run in model a (1),
    those of model-b actions in model b (2) — as in the native runner"""
    return 2 if owner_origin == 2 else 1


def deadline_val(P, name, dl):
    if dl == "abs":
        return as_time_val(P.time(name))
    return as_dur_val(P.dur(name))


def run_script_sym(it, script, opts=None):
    """Execute `script` on the real MIR; returns (obs list, params, world). Raises nothing for panics/loop bounds: they
    are recorded in the Obs of the command during which they happened (obs list is then shorter than the script)."""
    opts = opts or {}
    P = SymParams(it)
    t0 = P.time("t0")
    tol = None
    if opts.get("tolerance"):
        tol = as_dur_val(P.dur("tol"))
    w = SimWorld(it, as_time_val(t0), tolerance=tol, names=opts.get("names") or ["a", "b"])
    w.permute = bool(opts.get("permute"))
    w.pending_mode = bool(opts.get("pending"))
    if opts.get("tie"):
        # shape variant in which the listed (absolute-deadline) requests are all accepted and share one deadline
        # (a stated restriction of this shape; the unrestricted variant of the shape is explored as well)
        first = P.time(f"c{opts['tie'][0]}")
        it.assume(first > t0)
        for ci in opts["tie"][1:]:
            it.assume(P.time(f"c{ci}") == first)
    # loop bounds: inner loops of one step are bounded by the number of queue entries (+ slack); the outer loop of
    # step_until by the stated number of distinct due times
    nsched = sum(1 for c in script if c["op"] == "sched") + sum(1 for c in script if c.get("effect") and c["effect"]["op"] == "sched")
    it.loop_bound = nsched + opts.get("max_steps", 4) + 3
    it.loop_bounds = {"step_until_unchecked": opts.get("max_steps", 4) + 1}
    keys = {}
    obs = []
    cur = [None]
    nsync = [0]

    def clock(wld, t):
        k = nsync[0]
        nsync[0] += 1
        sc = opts.get("clock")
        if sc and k < len(sc) and sc[k] == "lag":
            lag = as_dur_val(P.dur(f"lag{k}"))
            return Agg("SyncStatus", [lag], variant="OutOfSync")
        if sc and k < len(sc) and isinstance(sc[k], dict) and sc[k]["op"] == "sched":
            # a scheduling request issued through a Scheduler handle WHILE the stepping thread is inside
            # Clock::synchronize, i.e. at the point of a step where it does not hold the queue lock (C08: requests from
            # other threads while the simulation is stepping)
            req = sc[k]
            act, _p = build_action(wld, P, req["kind"], req["id"], f"k{k}", keys)
            r = wld.schedule(deadline_val(P, f"k{k}", req["dl"]), act)
            if cur[0] is not None:
                cur[0].events.append(("csched", k, res_of(r)))
        return Agg("SyncStatus", [], variant="Synchronized")

    w.clock_script = clock

    # event recording: route interpreter events into the current Obs
    def on_event(*e):
        if cur[0] is None:
            return
        k = e[0]
        if k == "fire":
            cur[0].events.append(("fire", e[1], T(e[3])))
        elif k == "sync":
            cur[0].events.append(("sync", T(e[1])))
        elif k in ("run-begin", "run-end"):
            cur[0].events.append((k,))
        elif k == "spawn":
            cur[0].events.append(("spawn", e[1]))
        elif k in ("lock", "unlock"):
            cur[0].events.append((k,))
        elif k == "skip-cancelled":
            cur[0].events.append(("skip", e[1]))

    orig_event = it.event

    def ev(*e):
        orig_event(*e)
        on_event(*e)

    it.event = ev
    wname = it.P.find_def("SyncCell", None, "write")
    if wname:
        def hook(itp, fn, args):
            if cur[0] is not None:
                cur[0].events.append(("timewrite", T(args[1])))
        it.fn_hooks[wname[0]] = hook
    tname = it.P.find_def("GlobalScheduler", None, "time")
    if tname:
        def thook(itp, fn, args):
            # time reads made by the scheduling functions (the leaf futures' own reads are flagged and skipped)
            if cur[0] is not None and not itp.env.get("leaf_time_read"):
                cur[0].events.append(("timeread",))
        it.fn_hooks[tname[0]] = thook

    # effects
    def make_effect(i, eff, owner_origin):
        def run_effect(wld, occ):
            if eff["op"] == "cancel":
                if eff["key"] in keys:
                    wld.cancel(keys[eff["key"]])
                    cur[0].events.append(("ecancel", eff["key"]))
            elif eff["op"] == "sched":
                # each occurrence of a periodic owner would re-run the effect; parameters are shared
                # a handler schedules through its model's Context (the handlers of origin-0/1 actions run in model a)
                dlv = deadline_val(P, f"e{i}", eff["dl"])
                pv = as_dur_val(P.period(f"e{i}")) if eff["kind"] in ("periodic", "kperiodic") else None
                r = wld.schedule_event(eff["kind"], dlv, eff["id"], pv, effect_origin(owner_origin), keys)
                cur[0].events.append(("esched", i, res_of(r)))
            elif eff["op"] == "panic":
                from .simworld import ModelPanic
                raise ModelPanic()
        return run_effect

    fault_at = opts.get("fault_at")  # (cmd index, kind)
    for i, cmd in enumerate(script):
        o = Obs()
        cur[0] = o
        obs.append(o)
        w.exec_fault = None
        if fault_at and fault_at[0] == i:
            w.exec_fault = make_fault(it, fault_at[1], opts)
        try:
            op = cmd["op"]
            if op == "sched":
                if cmd.get("effect"):
                    w.effects[cmd["id"]] = make_effect(i, cmd["effect"], cmd["origin"])
                dlv = deadline_val(P, f"c{i}", cmd["dl"])
                if cmd["origin"] == 0 and cmd.get("api", "action") == "action":
                    # pre-built action through Scheduler::schedule -> GlobalScheduler::schedule_from
                    act, _p = build_action(w, P, cmd["kind"], cmd["id"], f"c{i}", keys)
                    r = w.schedule(dlv, act)
                else:
                    # Scheduler::schedule_*event (global origin) / Context::schedule_*event (model origin)
                    pv = as_dur_val(P.period(f"c{i}")) if cmd["kind"] in ("periodic", "kperiodic") else None
                    r = w.schedule_event(cmd["kind"], dlv, cmd["id"], pv, cmd["origin"], keys)
                o.res = res_of(r)
            elif op == "cancel":
                if cmd["key"] in keys:
                    w.cancel(keys[cmd["key"]])
                o.res = ("Ok",)
            elif op == "dropauto":
                if cmd["key"] in keys:
                    auto = it.call_fn("ActionKey", None, "into_auto", [w.key_clone(keys[cmd["key"]])])
                    it.drop_value(auto)
                o.res = ("Ok",)
            elif op == "step":
                o.res = res_of(w.step())
            elif op == "until":
                o.res = res_of(w.step_until(deadline_val(P, f"c{i}", cmd["dl"])))
            elif op == "process":
                act, _p = build_action(w, P, cmd.get("kind", "once"), cmd["id"], f"c{i}", keys)
                o.res = res_of(w.process(act))
            else:
                raise ValueError(op)
            o.time = T(w.now())
            o.terminated = w.is_terminated()
        except LoopBound as e:
            # The outer loop of step_until iterates once per distinct due time: unbounded for periodic actions under a
            # symbolic target, so reaching its bound only cuts the path (stated bound). Any other loop (the pull/peek
            # loops of one step, the reader retry loop, ...) is bounded by the queue size for well-formed input:
            # reaching the bound there on a feasible path is reported.
            o.aborted = "cut" if getattr(e, "fn", "") == "step_until_unchecked" else "loopbound"
            break
        except RustPanic as e:
            o.aborted = "panic:" + str(e.msg)
            break
    cur[0] = None
    return obs, P, w


def make_fault(it, kind, opts):
    def f(w):
        if kind == "timeout":
            return Agg("ExecutorError", [], variant="Timeout")
        if kind == "unprocessed":
            return Agg("ExecutorError", [it.sym("fault.n", "usize")], variant="UnprocessedMessages")
        if kind == "panic":
            mid = Agg("ModelId", [I(0, "usize")])
            payload = it.alloc(Opaque("Payload", is_send_error=False), tag="payload", kind="box")
            return Agg("ExecutorError", [mid, payload], variant="Panic")
        if kind == "norecipient":
            mid = Agg("ModelId", [I(0, "usize")])
            payload = it.alloc(Opaque("Payload", is_send_error=True), tag="payload", kind="box")
            return Agg("ExecutorError", [mid, payload], variant="Panic")
        raise ValueError(kind)
    return f


# ----------------------------------------------------------------------------------------------- the oracle


class Checker:
    """Obligation sink. `sym`: an Interp (solver decides); concrete: formulas must simplify to true."""

    def __init__(self, it=None, groups=None):
        self.it = it
        self.groups = groups
        self.failed = []   # (label, detail)
        self.count = 0
        self.cut = False

    def enabled(self, label):
        return self.groups is None or label.split(":")[0] in self.groups

    def check(self, f, label, detail=""):
        if not self.enabled(label):
            return True
        self.count += 1
        if isinstance(f, bool):
            f = z3.BoolVal(f)
        if self.it is not None:
            okv = self.it.check(f, label, detail)
            if not okv:
                self.failed.append((label, detail))
            return okv
        s = z3.simplify(f)
        if z3.is_true(s):
            return True
        self.failed.append((label, detail))
        return False


def oracle(script, P, obs, ck, opts=None):
    """Judge an observation stream. Obligation labels are prefixed with the property they belong to."""
    opts = opts or {}
    native = bool(opts.get("native"))   # native observation streams carry no timewrite/run-begin/run-end/spawn events
    now = P.time("t0")
    tol = P.dur("tol") if opts.get("tolerance") else None
    pending = []      # ghost entries: dict(id, d, origin, seq, period, key, fired=False, cancelled=False)
    seqn = [0]
    terminated = False
    last_fire_t = None
    last_sync_t = None
    last_write_t = None
    key_cancelled = set()
    nsync = 0
    nfire = [0]            # ordinal of the action execution currently being processed
    fire_time_class = {}   # ordinal -> ordinal of the first execution of the same time step (same step <=> same class)
    panic_ids = set(c["id"] for c in script if c["op"] == "sched" and c.get("effect") and c["effect"]["op"] == "panic")

    def add_entry(lid, d, origin, period, key, born=None):
        seqn[0] += 1
        # born: ('reinsert'|'handler', command index, time of the step) for entries created while a step runs.  The
        # re-insertion of a periodic occurrence happens when its predecessor is pulled (before the handlers of that
        # step run) while the ghost sees it at the predecessor's execution: the relative order of a re-inserted
        # occurrence and an action scheduled by a handler of the SAME step is therefore left unconstrained.
        e = dict(id=lid, d=d, origin=origin, seq=seqn[0], period=period, key=key, fired=False,
                 cancelled=(key in key_cancelled) if key is not None else False, cancelled_at=None, born=born)
        pending.append(e)
        return e

    def do_sched(i, cmdlike, pname, res, origin, label_prefix):
        """common handling of a scheduling request (driver command or effect)"""
        nonlocal now
        kind = cmdlike["kind"]
        period = P.period(pname) if kind in ("periodic", "kperiodic") else None
        if cmdlike["dl"] == "abs":
            d = P.time(pname)
        else:
            d = t_add(now, P.dur(pname))
        key = cmdlike["id"] if kind in ("keyed", "kperiodic") else None
        if res[0] == "Ok":
            ck.check(t_lt(now, d), "C08:accepted-deadline-in-future", f"cmd {i}")
            if period is not None:
                ck.check(z3.Not(d_is_zero(period)), "C08:accepted-period-nonzero", f"cmd {i}")
            ne_ = add_entry(cmdlike["id"], d, origin, period, key, born=("handler", i, nfire[0]) if label_prefix == "handler" else None)
            # events scheduled on a model input (event API: Scheduler::schedule_*event / Context::schedule_*event; every
            # request of a handler or of a model origin) re-check their key inside the model right before the handler runs
            ne_["recheck"] = bool(label_prefix == "handler" or origin != 0 or cmdlike.get("api", "action") == "event")
        else:
            var = res[1]
            if var == "InvalidScheduledTime":
                ck.check(t_le(d, now), "C08:rejected-deadline-not-in-future", f"cmd {i}")
            elif var == "NullRepetitionPeriod":
                ck.check(d_is_zero(period) if period is not None else False, "C08:rejected-period-zero", f"cmd {i}")
            else:
                ck.check(False, "C08:unexpected-scheduling-error", f"cmd {i}: {var}")

    for i, cmd in enumerate(script):
        if i >= len(obs):
            break
        o = obs[i]
        op = cmd["op"]
        if o.aborted:
            if o.aborted == "cut":
                ck.cut = True
            elif o.aborted in ("loopbound", "hang"):
                ck.check(False, "C08:stepping-call-returns", f"cmd {i} ({op}) did not return within the unwinding bound")
            elif "overflow when adding duration" in o.aborted or "overflow when" in o.aborted and "tai" in o.aborted:
                pass  # MonotonicTime overflow: outside the claim
            else:
                ck.check(False, "C01:no-panic", f"cmd {i} ({op}) panicked: {o.aborted}")
            break
        t_before = now
        was_terminated = terminated
        stepping = op in ("step", "until", "process")

        if was_terminated and stepping:
            ck.check(o.res[0] == "Err" and o.res[1] == "Terminated", "C11:terminated-result", f"cmd {i} ({op}) after a fatal error returned {o.res[:2]}")
            bad = [e[0] for e in o.events if e[0] in ("fire", "spawn", "timewrite", "sync", "run-begin", "esched", "ecancel")]
            ck.check(not bad, "C11:terminated-no-effect", f"cmd {i} ({op}) after a fatal error performed {sorted(set(bad))}")
            ck.check(t_eq(o.time, t_before), "C11:terminated-time-unchanged", f"cmd {i} ({op})")
            now = o.time
            continue

        # ---- scheduling / cancellation commands
        if op == "sched":
            held = False
            for ev in o.events:
                if ev[0] == "lock":
                    held = True
                elif ev[0] == "unlock":
                    held = False
                elif ev[0] == "timeread":
                    ck.check(held, "C08:request-validated-under-the-queue-lock", f"cmd {i}: the scheduling function read the time without holding the queue lock")
            do_sched(i, cmd, f"c{i}", o.res, cmd["origin"], "")
            ck.check(t_eq(o.time, t_before), "C01:time-unchanged-by-non-stepping", f"cmd {i}")
            continue
        if op in ("cancel", "dropauto"):
            key_cancelled.add(cmd["key"])
            for e in pending:
                if e["key"] == cmd["key"] and not e["fired"]:
                    e["cancelled"] = True
            continue

        # ---- stepping commands: walk the events
        start_pending = [e for e in pending if not e["fired"] and not e["cancelled"]]
        fired_now = []
        cancelled_during = set()
        since_write_synced = True
        run_open = False
        synced_since_run = False
        outofsync = None
        oos_fatal = None        # z3 Bool: a lag above the tolerance was reported by a synchronize of this command
        panicked = False
        lock_held = False
        last_fire_cmd_step = None
        last_sync_in_cmd = None
        proc_entry = None
        if op == "process":
            proc_entry = dict(id=cmd["id"], d=t_before, origin=-1, seq=0, period=None, key=None, fired=False, cancelled=False)
        for ev in o.events:
            k = ev[0]
            if k == "lock":
                lock_held = True
            elif k == "unlock":
                lock_held = False
            elif k == "timeread":
                # C08 (race-freedom): the time a request is validated against is read with the scheduler queue locked
                ck.check(lock_held, "C08:request-validated-under-the-queue-lock", f"cmd {i}: a scheduling function read the time without holding the queue lock")
            if k == "timewrite":
                t = ev[1]
                # C08 (race-freedom): the stepping thread advances the time only while it holds the scheduler queue lock,
                # so that no request can be validated against a stale time in between
                if op in ("step", "until"):
                    ck.check(lock_held, "C08:time-advances-under-the-queue-lock", f"cmd {i} ({op}): the simulation time was written without holding the queue lock")
                if last_write_t is not None:
                    ck.check(t_le(last_write_t, t), "C01:time-never-decreases", f"cmd {i}")
                ck.check(t_le(t_before, t), "C01:time-never-decreases", f"cmd {i}")
                last_write_t = t
                since_write_synced = False
                now = t
            elif k == "sync":
                t = ev[1]
                nsync += 1
                if not native:
                    ck.check(not run_open, "C18:sync-outside-run", f"cmd {i}: synchronize called while computations run")
                    ck.check(t_eq(t, now), "C18:sync-with-new-time", f"cmd {i}: synchronize called with a time other than the new simulation time")
                else:
                    now = t
                ck.check(op in ("step", "until"), "C18:sync-only-when-time-moves", f"cmd {i} ({op}) called synchronize")
                # every synchronize is for a NEW time: strictly later than the time before the command and than the
                # previous synchronize (=> exactly once per time, never decreasing)
                # (step_until(now) with nothing due re-synchronizes on the unchanged time: not a move, tolerated)
                first_ok = t_le(t_before, t) if op == "until" else t_lt(t_before, t)
                ck.check(first_ok if last_sync_in_cmd is None else t_lt(last_sync_in_cmd, t),
                         "C18:sync-exactly-once-per-new-time", f"cmd {i}: synchronize repeated or called without a new time")
                if last_sync_t is not None:
                    ck.check(t_le(last_sync_t, t), "C18:sync-times-nondecreasing", f"cmd {i}")
                if oos_fatal is not None:
                    ck.check(z3.Not(oos_fatal), "C18:stops-when-lag-above-tolerance", f"cmd {i}: stepping continued after a lag above the tolerance")
                last_sync_t = t
                last_sync_in_cmd = t
                since_write_synced = True
                synced_since_run = True
                sc = opts.get("clock")
                if sc and nsync - 1 < len(sc) and sc[nsync - 1] == "lag":
                    lag = P.dur(f"lag{nsync - 1}")
                    outofsync = lag
                    if tol is not None:
                        oos_fatal = d_gt(lag, tol)
                else:
                    outofsync = None
            elif k == "run-begin":
                run_open = True
                if op in ("step", "until"):
                    ck.check(since_write_synced, "C18:sync-before-run", f"cmd {i}: executor run for a new time without synchronize")
            elif k == "run-end":
                run_open = False
            elif k == "fire":
                lid, t = ev[1], ev[2]
                nfire[0] += 1
                same_step = bool(fired_now) and last_fire_cmd_step == (i, nsync)
                fire_time_class[nfire[0]] = fire_time_class.get(nfire[0] - 1, nfire[0]) if same_step else nfire[0]
                last_fire_cmd_step = (i, nsync)
                if op in ("step", "until"):
                    # computations for time t only after synchronize(t)
                    ck.check(last_sync_in_cmd is not None and t_eq(last_sync_in_cmd, t) if last_sync_in_cmd is not None else False,
                             "C18:sync-before-computation", f"cmd {i}: action {lid} ran at a time that was not synchronized first")
                    if oos_fatal is not None:
                        ck.check(z3.Not(oos_fatal), "C18:no-model-code-when-lag-above-tolerance", f"cmd {i}: action {lid}")
                cand = [e for e in pending if e["id"] == lid and not e["fired"]]
                if proc_entry is not None and proc_entry["id"] == lid and not proc_entry["fired"]:
                    cand = [proc_entry]
                if not cand:
                    ck.check(False, "C01:fired-exactly-once", f"cmd {i}: action {lid} executed although it is not pending (duplicate or stale)")
                    continue
                e = cand[0]
                e["fired"] = True
                fired_now.append(e)
                if lid in panic_ids:
                    panic_ids.discard(lid)
                    panicked = True
                ck.check(t_eq(t, e["d"]), "C01:handler-sees-deadline", f"cmd {i}: action {lid}")
                if not native:
                    ck.check(t_eq(now, e["d"]), "C01:executed-at-deadline", f"cmd {i}: action {lid}")
                if e["cancelled"] and e.get("cancelled_at") != i:
                    ck.check(False, "C09:cancelled-not-executed", f"cmd {i}: action {lid} executed after its key was cancelled")
                elif e["cancelled"] and e.get("recheck") and e.get("cancelled_by_origin") == e["origin"]:
                    # (same origin and same time => both events travel in one sequential future, so the canceller's
                    # handler has completed before the cancelled event reaches the model)
                    # cancelled earlier in this very step (by a handler that ran before it): an event on a model input
                    # is still stopped, up to the moment the model starts processing it
                    ck.check(False, "C09:cancelled-up-to-processing", f"cmd {i}: event {lid} on a model input was processed although its key "
                                                                      f"had been cancelled by an earlier handler of the same step")
                if last_fire_t is not None:
                    ck.check(t_le(last_fire_t, t), "C01:chronological-order", f"cmd {i}: action {lid}")
                last_fire_t = t
                # same-origin same-time order (C07)
                for e2 in fired_now[:-1]:
                    if e2["origin"] == e["origin"] and e2["seq"] > e["seq"]:
                        b1, b2 = e.get("born"), e2.get("born")
                        if b1 and b2 and b1[0] != b2[0] and b1[1] == b2[1] and fire_time_class.get(b1[2]) == fire_time_class.get(b2[2]):
                            continue
                        ck.check(z3.Not(t_eq(e2["d"], e["d"])), "C07:same-origin-same-time-in-scheduling-order",
                                 f"cmd {i}: action {e2['id']} (scheduled later) ran before {lid}")
                if e["period"] is not None:
                    ne = add_entry(lid, t_add(e["d"], e["period"]), e["origin"], e["period"], e["key"], born=("reinsert", i, nfire[0]))
                    ne["cancelled"] = e["cancelled"] or (e["key"] in key_cancelled if e["key"] is not None else False)
            elif k == "skip":
                # keyed action skipped by the in-model re-check (environment model): it counts as consumed
                lid = ev[1]
                cand = [e for e in pending if e["id"] == lid and not e["fired"]]
                if cand:
                    e = cand[0]
                    e["fired"] = True
                    e["skipped"] = True
                    ck.check(e["cancelled"], "C09:only-cancelled-skipped", f"cmd {i}: action {lid} skipped although not cancelled")
                    if e["period"] is not None:
                        ne = add_entry(lid, t_add(e["d"], e["period"]), e["origin"], e["period"], e["key"], born=("reinsert", i, nfire[0]))
                        ne["cancelled"] = True
            elif k == "ecancel":
                key_cancelled.add(ev[1])
                for e in pending:
                    if e["key"] == ev[1] and not e["fired"]:
                        e["cancelled"] = True
                        e["cancelled_at"] = i
                        e["cancelled_by_origin"] = fired_now[-1]["origin"] if fired_now else None
                        cancelled_during.add(id(e))
            elif k == "esched":
                owner = ev[1]
                eff = script[owner]["effect"]
                do_sched(i, eff, f"e{owner}", ev[2], effect_origin(script[owner]["origin"]), "handler")
            elif k == "csched":
                # request issued from inside synchronize(t): the simulation time is already t (the time is advanced
                # under the queue lock before the clock is consulted), so the request is judged against t
                if last_sync_in_cmd is not None:
                    now = last_sync_in_cmd
                do_sched(i, opts["clock"][ev[1]], f"k{ev[1]}", ev[2], 0, "handler")

        t_after = o.time
        ck.check(t_le(t_before, t_after), "C01:time-never-decreases", f"cmd {i}")
        res = o.res
        fatal = res[0] == "Err" and res[1] in FATAL
        if panicked:
            # a handler of model "a" panicked during this command
            ck.check(res[0] == "Err" and res[1] == "Panic", "C11:panic-classified", f"cmd {i} ({op}): a handler panicked but the call returned {res[:2]}")
            if res[0] == "Err" and res[1] == "Panic":
                who = res[2].data.get("s") if hasattr(res[2], "data") else res[2]
                ck.check(who == "a", "C11:panic-attributed-to-model", f"cmd {i}: panic attributed to {who!r} instead of 'a'")
        elif res[0] == "Err" and res[1] == "Panic":
            ck.check(False, "C11:panic-only-when-handler-panicked", f"cmd {i}")
        if fatal:
            terminated = True
            if "terminated" in o.__dict__ and o.terminated is not None:
                ck.check(o.terminated.v if hasattr(o.terminated, "v") else o.terminated, "C11:fatal-sets-terminated", f"cmd {i}")
        # every move to a new time is synchronized
        if op in ("step", "until") and not fatal:
            moved = z3.Not(t_eq(t_after, t_before))
            ck.check(z3.Implies(moved, t_eq(last_sync_in_cmd, t_after)) if last_sync_in_cmd is not None else z3.Not(moved),
                     "C18:every-new-time-is-synchronized", f"cmd {i}: time moved without synchronize(new time)")
        if res[0] == "Err" and res[1] == "OutOfSync":
            ck.check(oos_fatal is not None, "C18:out-of-sync-only-with-lag-and-tolerance", f"cmd {i}")
            if oos_fatal is not None:
                ck.check(oos_fatal, "C18:out-of-sync-only-above-tolerance", f"cmd {i}")
                if res[2] is not None:
                    ck.check(res[2].fields[0].v == outofsync if hasattr(res[2], "fields") else (res[2] == outofsync),
                             "C11:out-of-sync-carries-lag", f"cmd {i}")
            now = t_after
            continue
        if oos_fatal is not None and op in ("step", "until"):
            ck.check(z3.Not(oos_fatal), "C18:step-fails-when-lag-above-tolerance",
                     f"cmd {i} ({op}) returned {res[:2]} although synchronize reported a lag above the tolerance")
        if fatal:
            now = t_after
            continue

        if op == "process":
            ck.check(res[0] == "Ok", "C01:process-ok", f"cmd {i}: {res[:2]}")
            ck.check(t_eq(t_after, t_before), "C01:process-leaves-time-unchanged", f"cmd {i}")
            ck.check(proc_entry["fired"], "C01:process-executes-action", f"cmd {i}")
            ck.check(len(fired_now) == 1, "C01:process-executes-only-that-action", f"cmd {i}")
        elif op == "step":
            ck.check(res[0] == "Ok", "C01:step-ok", f"cmd {i}: {res[:2]}")
            if not start_pending:
                ck.check(not fired_now, "C01:step-nothing-pending-nothing-runs", f"cmd {i}")
                ck.check(t_eq(t_after, t_before), "C01:step-nothing-pending-time-unchanged", f"cmd {i}")
            else:
                ck.check(z3.And([t_le(t_after, e["d"]) for e in start_pending]), "C01:step-advances-to-earliest", f"cmd {i}: new time is later than a pending deadline")
                ck.check(z3.Or([t_eq(t_after, e["d"]) for e in start_pending]), "C01:step-advances-to-earliest", f"cmd {i}: new time is not a pending deadline")
                for e in start_pending:
                    if e["fired"] and not e.get("skipped"):
                        ck.check(t_eq(e["d"], t_after), "C01:step-runs-only-due", f"cmd {i}: action {e['id']}")
                    elif not e["fired"] and id(e) not in cancelled_during:
                        ck.check(z3.Not(t_eq(e["d"], t_after)), "C01:step-runs-everything-due", f"cmd {i}: action {e['id']} due at the new time was not executed")
        elif op == "until":
            target = P.time(f"c{i}") if cmd["dl"] == "abs" else t_add(t_before, P.dur(f"c{i}"))
            if res[0] == "Err" and res[1] == "InvalidDeadline":
                ck.check(t_lt(target, t_before), "C01:until-rejects-only-past-targets", f"cmd {i}")
                ck.check(t_eq(t_after, t_before), "C01:until-rejected-no-effect", f"cmd {i}")
                ck.check(not o.events or all(e[0] in ("lock", "unlock") for e in o.events), "C01:until-rejected-no-effect", f"cmd {i}")
            else:
                ck.check(res[0] == "Ok", "C01:until-ok", f"cmd {i}: {res[:2]}")
                ck.check(t_le(t_before, target), "C01:until-accepts-only-non-past-targets", f"cmd {i}")
                ck.check(t_eq(t_after, target), "C01:until-leaves-time-at-target", f"cmd {i}")
                for e in pending:
                    if e["cancelled"] and not e["fired"]:
                        continue
                    if e["fired"]:
                        if e in fired_now and not e.get("skipped"):
                            ck.check(t_le(e["d"], target), "C01:until-runs-only-due", f"cmd {i}: action {e['id']}")
                    elif id(e) not in cancelled_during:
                        ck.check(t_lt(target, e["d"]), "C01:until-runs-everything-due", f"cmd {i}: action {e['id']} due by the target was not executed")
        now = t_after
        # invariant: every pending, non-cancelled action lies strictly in the future
        for e in pending:
            if not e["fired"] and not e["cancelled"]:
                ck.check(t_lt(now, e["d"]), "C01:pending-strictly-in-future", f"after cmd {i}: action {e['id']}")
    return pending
