"""Environment models of the async leaf crates used by the message plane, at *task-poll granularity* (one task runs
at a time; tasks interleave only at their await points):

  std::task            Context / Waker            tokens; waking a task waker calls world.wake(task)
  futures_task         waker_ref / ArcWake        WakerRef token that forwards to the crate's own `ArcWake::wake_by_ref`
  async-event 0.2      Event / WaitUntil          FIFO wait set; poll = remove own notifier, predicate, insert notifier,
                                                   predicate again (cancel passes a notification on), Pending
  diatomic-waker 0.2   DiatomicWaker, WakeSink/Source   one registered waker; notify wakes it and unregisters it
  multishot 0.3        Receiver / Sender / Recv   one-shot reply slot, reusable once the reply was received
  recycle-box 0.2      RecycleBox                 a box whose allocation is reused (identity of the allocation is kept)
  std::thread_local    LocalKey<Cell<isize>>      the in-flight message counter (one counter: execution is sequential)

The semantics follow the sources of these crate versions (registry copies); they are part of the trusted base.
"""
from .interp import RustPanic, Unsupported
from .models import deref_all, err, none, ok, some
from .values import Agg, B, Cell, I, Opaque, Ptr, unit


def ref(v, tag="tmp"):
    return Ptr(Cell(v, tag=tag), (), "ref")


def pending():
    return Agg("Poll", [], variant="Pending")


def ready(v):
    return Agg("Poll", [v], variant="Ready")


def install(M, world):
    """world: object with wake(task_index) and attribute msg_count (python int)"""

    # ---------------------------------------------------------------- Context / Waker
    def cx_waker(it, cal, args):
        cx = deref_all(it, args[0])
        if not isinstance(cx, Opaque) or "waker" not in cx.data:
            raise Unsupported(f"Context::waker on {cx!r}")
        return ref(cx.data["waker"], "waker")

    def cx_from_waker(it, cal, args):
        return Opaque("Context", waker=deref_all(it, args[0]))

    def do_wake(it, w):
        w = deref_all(it, w)
        if not isinstance(w, Opaque) or w.tag != "Waker":
            raise Unsupported(f"wake of {w!r}")
        k = w.data["kind"]
        if k == "task":
            world.wake(w.data["task"])
        elif k == "arcwake":
            it.call_fn(w.data["ty"], "ArcWake", "wake_by_ref", [ref(w.data["arc"], "arcself")])
        elif k == "noop":
            pass
        else:
            raise Unsupported(f"waker kind {k}")
        return unit()

    def waker_wake_by_ref(it, cal, args):
        return do_wake(it, args[0])

    def waker_clone(it, cal, args):
        return deref_all(it, args[0])

    def waker_will_wake(it, cal, args):
        a, b = deref_all(it, args[0]), deref_all(it, args[1])
        return B(a.data == b.data)

    def waker_ref_(it, cal, args):
        arc = it.load(args[0]) if isinstance(args[0], Ptr) and args[0].kind == "ref" else args[0]
        inner = deref_all(it, arc)
        ty = inner.name if isinstance(inner, Agg) else None
        if not ty or not it.P.find_def(ty, "ArcWake", "wake_by_ref"):
            raise Unsupported(f"waker_ref of {inner!r}")
        return Opaque("WakerRef", waker=Opaque("Waker", kind="arcwake", arc=arc, ty=ty))

    def wakerref_deref(it, cal, args):
        return ref(deref_all(it, args[0]).data["waker"], "waker")

    # ---------------------------------------------------------------- async-event
    def event_new(it, cal, args):
        return Opaque("Event", waiters=[])

    def event_wait_until(it, cal, args):
        return Opaque("EvWaitUntil", event=deref_all(it, args[0]), pred=args[1], state="idle", notifier=None)

    def _cancel(it, ev, n):
        if n["in_set"]:
            ev.data["waiters"].remove(n)
            n["in_set"] = False
        elif ev.data["waiters"]:
            o = ev.data["waiters"].pop(0)
            o["in_set"] = False
            do_wake(it, o["waker"])

    def ev_wait_poll(it, cal, args):
        _, f = it.future_target(args[0])
        ev = f.data["event"]
        if f.data["state"] == "done":
            raise RustPanic("WaitUntil polled after completion")
        n = f.data["notifier"]
        if n is not None and n["in_set"]:
            ev.data["waiters"].remove(n)
            n["in_set"] = False
        r = it.call_closure(ref(f.data["pred"], "pred"), Agg("tuple", []))
        if r.variant == "Some":
            f.data["state"] = "done"
            return ready(r.fields[0])
        if n is None:
            n = f.data["notifier"] = dict(waker=None, in_set=False)
        n["waker"] = deref_all(it, cx_waker(it, cal, [args[1]]))
        ev.data["waiters"].append(n)
        n["in_set"] = True
        r = it.call_closure(ref(f.data["pred"], "pred"), Agg("tuple", []))
        if r.variant == "Some":
            _cancel(it, ev, n)
            f.data["state"] = "done"
            return ready(r.fields[0])
        f.data["state"] = "polled"
        return pending()

    def ev_wait_drop(it, v):
        if v.data["state"] == "polled":
            _cancel(it, v.data["event"], v.data["notifier"])
            v.data["state"] = "done"

    def event_notify(it, cal, args):
        ev = deref_all(it, args[0])
        n = {"notify_one": 1, "notify_all": 1 << 30}.get(cal.method)
        if n is None:
            n = args[1].concrete()
            if n is None:
                raise Unsupported("Event::notify with a symbolic count")
        while n > 0 and ev.data["waiters"]:
            o = ev.data["waiters"].pop(0)
            o["in_set"] = False
            do_wake(it, o["waker"])
            n -= 1
        return unit()

    # ---------------------------------------------------------------- diatomic-waker
    def dw_new(it, cal, args):
        return Opaque("DiatomicWaker", slot=[None])

    def dw_notify(it, cal, args):
        # "Sends a notification if a waker is registered. This automatically unregisters any waker that may have been
        # previously registered." (diatomic-waker 0.2.3, waker.rs: try_lock clears REGISTERED)
        d = deref_all(it, args[0])
        if d.data["slot"][0] is not None:
            w_, d.data["slot"][0] = d.data["slot"][0], None
            do_wake(it, w_)
        return unit()

    def dw_register(it, cal, args):
        deref_all(it, args[0]).data["slot"][0] = deref_all(it, args[1])
        return unit()

    def dw_unregister(it, cal, args):
        deref_all(it, args[0]).data["slot"][0] = None
        return unit()

    def dw_wait_until(it, cal, args):
        return Opaque("DwWaitUntil", dw=deref_all(it, args[0]), pred=args[1])

    def dw_wait_poll(it, cal, args):
        _, f = it.future_target(args[0])
        r = it.call_closure(ref(f.data["pred"], "pred"), Agg("tuple", []))
        if r.variant == "Some":
            return ready(r.fields[0])
        f.data["dw"].data["slot"][0] = deref_all(it, cx_waker(it, cal, [args[1]]))
        r = it.call_closure(ref(f.data["pred"], "pred"), Agg("tuple", []))
        if r.variant == "Some":
            f.data["dw"].data["slot"][0] = None
            return ready(r.fields[0])
        return pending()

    def sink_new(it, cal, args):
        return Opaque("WakeSink", dw=Opaque("DiatomicWaker", slot=[None]))

    def sink_source(it, cal, args):
        return Opaque("WakeSource", dw=deref_all(it, args[0]).data["dw"])

    def sink_register(it, cal, args):
        deref_all(it, args[0]).data["dw"].data["slot"][0] = deref_all(it, args[1])
        return unit()

    def sink_unregister(it, cal, args):
        deref_all(it, args[0]).data["dw"].data["slot"][0] = None
        return unit()

    def source_notify(it, cal, args):
        d = deref_all(it, args[0]).data["dw"]
        if d.data["slot"][0] is not None:
            w_, d.data["slot"][0] = d.data["slot"][0], None
            do_wake(it, w_)
        return unit()

    # ---------------------------------------------------------------- multishot
    def ms_receiver_new(it, cal, args):
        return Opaque("MsReceiver", st=dict(sender_alive=False, value=None, closed=False, waker=None))

    def ms_sender(it, cal, args):
        r = deref_all(it, args[0])
        st = r.data["st"]
        if st["sender_alive"]:
            return none()
        st.update(sender_alive=True, value=None, closed=False)
        return some(Opaque("MsSender", st=st, used=[False]))

    def ms_send(it, cal, args):
        s = args[0]
        st = s.data["st"]
        s.data["used"][0] = True
        st["value"] = args[1]
        st["sender_alive"] = False
        if st["waker"] is not None:
            w, st["waker"] = st["waker"], None
            do_wake(it, w)
        return unit()

    def ms_sender_drop(it, v):
        if not v.data["used"][0]:
            v.data["used"][0] = True
            st = v.data["st"]
            st["sender_alive"] = False
            st["closed"] = True
            if st["waker"] is not None:
                w, st["waker"] = st["waker"], None
                do_wake(it, w)

    def ms_recv(it, cal, args):
        return Opaque("MsRecv", st=deref_all(it, args[0]).data["st"])

    def ms_recv_poll(it, cal, args):
        _, f = it.future_target(args[0])
        st = f.data["st"]
        if st["value"] is not None:
            v, st["value"] = st["value"], None
            return ready(ok(v))
        if st["closed"]:
            st["closed"] = False
            return ready(err(Agg("RecvError", [])))
        st["waker"] = deref_all(it, cx_waker(it, cal, [args[1]]))
        return pending()

    # ---------------------------------------------------------------- recycle-box
    def rb_new(it, cal, args):
        return Ptr(Cell(args[0], tag="recyclebox"), (), "box")

    def _box(v):
        n = 0
        while isinstance(v, Agg) and v.name in ("Pin", "ManuallyDrop") and len(v.fields) == 1 and n < 4:
            v = v.fields[0]
            n += 1
        if not isinstance(v, Ptr):
            raise Unsupported(f"RecycleBox operation on {v!r}")
        return v

    def rb_recycle(it, cal, args):
        b = _box(args[0])
        old = it.read_loc(b.cell, b.path)
        it.drop_value(old)
        it.write_loc(b.cell, list(b.path), args[1])
        return b

    def rb_into_pin(it, cal, args):
        return Agg("Pin", [args[0]])

    def rb_vacate_pinned(it, cal, args):
        p = args[0]
        b = p.fields[0] if isinstance(p, Agg) else p
        old = it.read_loc(b.cell, b.path)
        it.drop_value(old)
        it.write_loc(b.cell, list(b.path), unit())
        return b

    def rb_vacate(it, cal, args):
        # RecycleBox::vacate(boxed) -> RecycleBox<()>: drops the content, keeps the allocation
        b = _box(args[0])
        old = it.read_loc(b.cell, b.path)
        it.drop_value(old)
        it.write_loc(b.cell, list(b.path), unit())
        return b

    def rb_take(it, cal, args):
        b = _box(args[0])
        old = it.read_loc(b.cell, b.path)
        it.write_loc(b.cell, list(b.path), unit())
        return Agg("tuple", [old, b])

    def rb_into_raw(it, cal, args):
        return Agg("tuple", [args[0], args[0], Opaque("Layout")])

    def rb_from_raw(it, cal, args):
        return args[0]

    # ---------------------------------------------------------------- thread-local message counter
    other_tls = {}

    def lk_get(it, cal, args):
        if "isize" not in cal.raw:
            k = cal.raw.split("::", 1)[-1]
            if k not in other_tls:
                raise Unsupported(f"read of unset thread-local {cal.raw}")
            return other_tls[k]
        return I(world.msg_count, "isize")

    def lk_set(it, cal, args):
        if "isize" not in cal.raw:
            other_tls[cal.raw.split("::", 1)[-1].replace("::set", "::get")] = args[1]
            world.tls_set(cal.raw, args[1]) if hasattr(world, "tls_set") else None
            return unit()
        c = args[1].concrete()
        if c is None:
            raise Unsupported("symbolic THREAD_MSG_COUNT")
        world.msg_count = c
        return unit()

    def lk_replace(it, cal, args):
        old = world.msg_count
        lk_set(it, cal, args)
        return I(old, "isize")

    names = {
        "Context::waker": cx_waker, "Context::from_waker": cx_from_waker,
        "Waker::wake_by_ref": waker_wake_by_ref, "Waker::wake": waker_wake_by_ref, "<Waker as Clone>::clone": waker_clone,
        "Waker::will_wake": waker_will_wake,
        "futures_task::waker_ref": waker_ref_, "waker_ref": waker_ref_, "<WakerRef as Deref>::deref": wakerref_deref,
        "Event::new": event_new, "Event::wait_until": event_wait_until, "<EvWaitUntil as Future>::poll": ev_wait_poll,
        "<WaitUntil as Future>::poll": None,  # resolved on the runtime tag (two crates name their future WaitUntil)
        "Event::notify": event_notify, "Event::notify_one": event_notify, "Event::notify_all": event_notify,
        "DiatomicWaker::new": dw_new, "DiatomicWaker::notify": dw_notify, "DiatomicWaker::register": dw_register,
        "DiatomicWaker::unregister": dw_unregister, "DiatomicWaker::wait_until": dw_wait_until, "<DwWaitUntil as Future>::poll": dw_wait_poll,
        "WakeSink::new": sink_new, "WakeSink::source": sink_source, "WakeSink::register": sink_register, "WakeSink::unregister": sink_unregister,
        "WakeSource::notify": source_notify,
        "multishot::Receiver::new": ms_receiver_new, "multishot::Receiver::sender": ms_sender, "multishot::Sender::send": ms_send,
        "multishot::Receiver::recv": ms_recv, "<MsRecv as Future>::poll": ms_recv_poll,
        "RecycleBox::new": rb_new, "RecycleBox::recycle": rb_recycle, "RecycleBox::into_pin": rb_into_pin,
        "RecycleBox::vacate_pinned": rb_vacate_pinned, "RecycleBox::vacate": rb_vacate, "RecycleBox::into_raw_parts": rb_into_raw,
        "RecycleBox::from_raw_parts": rb_from_raw,
        "LocalKey::get": lk_get, "LocalKey::set": lk_set, "LocalKey::replace": lk_replace, "LocalKey::new": lambda it, cal, args: Opaque("LocalKey"),
    }
    del names["<WaitUntil as Future>::poll"]

    def wait_until_poll(it, cal, args):
        _, f = it.future_target(args[0])
        if isinstance(f, Opaque) and f.tag == "EvWaitUntil":
            return ev_wait_poll(it, cal, args)
        if isinstance(f, Opaque) and f.tag == "DwWaitUntil":
            return dw_wait_poll(it, cal, args)
        raise Unsupported(f"WaitUntil::poll on {f!r}")
    names["<WaitUntil as Future>::poll"] = wait_until_poll
    names["<Recv as Future>::poll"] = ms_recv_poll
    names["Receiver::recv"] = None
    del names["Receiver::recv"]
    M.extra.update(names)
    prev = M.opaque_drop

    def opaque_drop(it, v):
        if v.tag == "EvWaitUntil":
            ev_wait_drop(it, v)
        elif v.tag == "MsSender":
            ms_sender_drop(it, v)
        elif prev:
            prev(it, v)
    M.opaque_drop = opaque_drop
    return M
