"""MIRSE — symbolic executor over the MIR dump of the real crate.

Heap shape is concrete on every path, scalars are z3 bit-vectors/booleans. Branches on symbolic conditions fork the
path; forking is implemented by deterministic re-execution under a recorded decision prefix (no state copying).
Anything the interpreter does not know raises `Unsupported`, which the drivers turn into an *inconclusive* result.
"""
import os
import re
import time
from collections import Counter

import z3

from . import mirparse as MP
from .mirparse import Unsupported, find_top, matching_close, split_top
from .values import (INT_TYPES, MOVED, Agg, B, CEnum, Cell, Coro, FnItem, I, Opaque, Ptr, Z, clone_value, unit)


class RustPanic(Exception):
    def __init__(self, msg, where=""):
        super().__init__(msg)
        self.msg = msg
        self.where = where


class LoopBound(Exception):
    """A loop was about to be unrolled beyond the bound on a feasible path (unwinding assertion failed)."""


class PathAbort(Exception):
    """Scenario-level abort of the current path (assumption violated)."""


# ------------------------------------------------------------------------------------------------ name handling


_split_cache = {}
_names_cache = {}


def split_path(s):
    r = _split_cache.get(s)
    if r is None:
        r = _split_path(s)
        _split_cache[s] = r
    return list(r)


def _split_path(s):
    """Split a Rust path at top-level '::'."""
    parts = []
    cur = 0
    depth_prev = None
    it = list(MP._scan(s))
    idxs = {i: (c, d) for i, c, d in it}
    i = 0
    n = len(s)
    # walk using depth info
    depth_at = {}
    for i_, c_, d_ in it:
        depth_at[i_] = (c_, d_)
    i = 0
    while i < n - 1:
        info = depth_at.get(i)
        if info and info[0] == ":" and info[1] == 0 and s[i + 1] == ":":
            parts.append(s[cur:i])
            cur = i + 2
            i += 2
            continue
        i += 1
    parts.append(s[cur:])
    return [p for p in parts if p != ""]


def strip_generics_seg(seg):
    """`Queue<T>` -> `Queue`, leaves `<impl usize>` and closures alone."""
    if seg.startswith(("<", "{")):
        return seg
    k = seg.find("<")
    return seg[:k] if k > 0 else seg


_btn_cache = {}


def base_type_name(t):
    r = _btn_cache.get(t)
    if r is None:
        r = _base_type_name(t)
        _btn_cache[t] = r
    return r


def _base_type_name(t):
    """Base name of a type text: path prefix and generic args removed."""
    t = t.strip()
    if t.startswith("&"):
        inner = t[1:]
        if inner.startswith("'"):
            inner = inner.split(" ", 1)[1]
        if inner.startswith("mut "):
            inner = inner[4:]
        return "&" + base_type_name(inner)
    if t.startswith("dyn "):
        return "dyn"
    if t.startswith("impl "):
        return "impl"
    if t.startswith("("):
        return "tuple" if t != "()" else "unit"
    if t.startswith("["):
        return "slice"
    if t.startswith("{"):
        return t
    if t.startswith("*const ") or t.startswith("*mut "):
        return "*" + base_type_name(t.split(" ", 1)[1])
    if t.startswith("<"):
        return "<proj>"
    segs = split_path(t)
    segs = [x for x in segs if not x.startswith("<")]
    return strip_generics_seg(segs[-1]) if segs else t


def is_type_param(t):
    t = t.strip()
    if t.startswith(("dyn ", "impl ", "<")):
        return True
    if t in ("Self",):
        return True
    return bool(re.fullmatch(r"_*[A-Z][A-Z0-9]{0,2}", t))


def _prim_impl(seg):
    """`<impl usize>` / `<impl [T]>` / `<impl *const T>`: inherent impl on a primitive (a path segment, not generic args)"""
    return seg.startswith("<impl ") and (seg[6:7].islower() or seg[6:7] in "[*")


class Callee:
    __slots__ = ("raw", "kind", "selft", "trait", "segs", "method")

    def __init__(self, raw):
        self.raw = raw
        raw = raw.strip()
        if raw.startswith("<") and not _prim_impl(raw):
            e = matching_close(raw, 0)
            inner = raw[1:e]
            rest = raw[e + 1:]
            k = find_top(inner, " as ")
            if k >= 0:
                self.selft, self.trait = inner[:k].strip(), inner[k + 4:].strip()
            else:
                self.selft, self.trait = inner.strip(), None
            segs = [strip_generics_seg(x) for x in split_path(rest) if not x.startswith("<")]
            self.kind = "q"
            self.segs = segs
            self.method = segs[0] if segs else ""
        else:
            segs = [x for x in split_path(raw)]
            segs = [strip_generics_seg(x) for x in segs if not (x.startswith("<") and not _prim_impl(x))]
            segs = ["<impl [T]>" if x.startswith("<impl [") else x for x in segs]
            self.kind = "p"
            self.segs = segs
            self.selft = segs[-2] if len(segs) >= 2 else None
            self.trait = None
            self.method = segs[-1]

    def names(self, selft_override=None):
        """Candidate canonical names for the model table, most specific first."""
        if selft_override is None:
            r = _names_cache.get(self.raw)
            if r is None:
                r = self._names(None)
                _names_cache[self.raw] = r
            return r
        return self._names(selft_override)

    def _names(self, selft_override=None):
        if self.kind == "q":
            st = selft_override or base_type_name(self.selft)
            tail = "::".join(self.segs)
            if self.trait:
                return [f"<{st} as {base_type_name(self.trait)}>::{tail}"]
            return [f"<{st}>::{tail}", f"{st}::{tail}"]
        full = "::".join(self.segs)
        out = [full]
        if len(self.segs) > 2:
            out.append("::".join(self.segs[-2:]))
        return out


# ------------------------------------------------------------------------------------------------ program (static part)


class Program:
    """Parsed MIR dump + indexes, shared by all paths."""

    def __init__(self, mir_path, src_root):
        self.funcs = MP.load(mir_path)
        self.src_root = src_root  # directory containing `nexosim/`
        self._files = {}
        self.defs = {}       # (selftype, trait|None, method) -> [fn name]
        self.closures = {}   # '{closure@...}' -> fn name
        self.coro_bodies = {}  # ('fn', creating fn name) | ('block', file, line, col) -> resume fn name
        self.consts = {}     # last segment -> [names]
        self.enums = dict(BUILTIN_ENUMS)
        self.struct_fields = {}
        self._adt_cache = {}
        self._clo_arity = {}
        self._index_enums()
        self._index_defs()

    # -- source access
    def file_lines(self, rel):
        r = self._files.get(rel)
        if r is None:
            p = os.path.join(self.src_root, rel)
            with open(p) as f:
                r = f.read().split("\n")
            self._files[rel] = r
        return r

    def _impl_info(self, rel, l1, c1, l2, c2):
        lines = self.file_lines(rel)
        text = lines[l1 - 1][c1 - 1:]
        if text.startswith("impl") or text.startswith("unsafe impl"):
            # collect header up to '{'
            j = l1
            hdr = text
            while "{" not in hdr and j < len(lines):
                hdr += " " + lines[j].strip()
                j += 1
            hdr = hdr.split("{")[0]
            hdr = re.sub(r"^unsafe\s+", "", hdr)
            hdr = hdr[4:].strip()
            if hdr.startswith("<"):
                e = matching_close(hdr, 0)
                hdr = hdr[e + 1:].strip()
            w = find_top(hdr, " where ")
            if w >= 0:
                hdr = hdr[:w]
            w = find_top(hdr, " where")
            if w >= 0:
                hdr = hdr[:w]
            k = find_top(hdr, " for ")
            if k >= 0:
                return base_type_name(hdr[k + 5:].strip()), base_type_name(hdr[:k].strip().lstrip("!"))
            return base_type_name(hdr.strip()), None
        # derive
        trait = lines[l1 - 1][c1 - 1:c2 - 1] if l1 == l2 else lines[l1 - 1][c1 - 1:]
        for j in range(l1 - 1, min(l1 + 40, len(lines))):
            m = re.search(r"\b(?:struct|enum|union)\s+(\w+)", lines[j])
            if m:
                return m.group(1), base_type_name(trait)
        return None, base_type_name(trait)

    def _index_defs(self):
        rx = re.compile(r"<impl at ([^:>]+):(\d+):(\d+): (\d+):(\d+)>")
        for name, fn in self.funcs.items():
            if fn.header.startswith(("const ", "static ", "promoted")):
                last = split_path(name)[-1]
                self.consts.setdefault(last, []).append(name)
                continue
            if re.search(r"::\{closure#\d+\}$", name) or re.search(r"::\{closure#\d+\}::\{closure#\d+\}$", name):
                # index by closure type of first parameter
                m = re.search(r"\(_1: (?:&mut |&)?(\{(?:closure|coroutine|async [^@]*)@[^}]*\})", fn.header)
                if m:
                    self.closures[m.group(1)] = name
                # coroutine resume functions: `_1: Pin<&mut {async fn body of F()}>` / `Pin<&mut {async block@file:L:C: L:C}>`
                if "(_1: Pin<&mut {async fn body of " in fn.header:
                    self.coro_bodies[("fn", re.sub(r"::\{closure#\d+\}$", "", name))] = name
                else:
                    mb = re.search(r"\(_1: Pin<&mut \{async (?:block|closure body)@([^:}]+):(\d+):(\d+): ", fn.header)
                    if mb:
                        self.coro_bodies[("block", mb.group(1), int(mb.group(2)), int(mb.group(3)))] = name
                continue
            m = rx.search(name)
            segs = split_path(name)
            method = segs[-1]
            if m:
                try:
                    st, tr = self._impl_info(m.group(1), int(m.group(2)), int(m.group(3)), int(m.group(4)), int(m.group(5)))
                except Exception:
                    st, tr = None, None
                self.defs.setdefault((st, tr, method), []).append(name)
            else:
                self.defs.setdefault((None, None, method), []).append(name)

    def _index_enums(self):
        root = os.path.join(self.src_root, "nexosim", "src")
        for dp, dn, fns in os.walk(root):
            for fn in fns:
                if not fn.endswith(".rs"):
                    continue
                try:
                    txt = open(os.path.join(dp, fn)).read()
                except Exception:
                    continue
                for m in re.finditer(r"\benum\s+(\w+)\s*(<[^{]*>)?\s*(?:where[^{]*)?\{", txt):
                    start = m.end() - 1
                    try:
                        end = _match_brace(txt, start)
                    except Exception:
                        continue
                    body = txt[start + 1:end]
                    vs = _parse_variants(body)
                    if vs:
                        self.enums.setdefault(m.group(1), vs)

    def closure_arity(self, cname):
        """(number of captured fields, {index: type text}) that the body of closure `cname` accesses, or None."""
        r = self._clo_arity.get(cname, 0)
        if r != 0:
            return r
        fname = self.closures.get(cname)
        r = None
        if fname:
            fn = self.funcs[fname]
            txt = "\n".join(fn._lines)
            idx = {}
            for m in re.finditer(r"\((?:\(\*_1\)|_1)\.(\d+): ", txt):
                k = int(m.group(1))
                # type text up to the matching ')'
                start = m.end()
                depth = 1
                j = start
                while j < len(txt) and depth:
                    if txt[j] in "(<[{":
                        depth += 1
                    elif txt[j] in ")>]}":
                        if txt[j] == ">" and txt[j - 1] in "-=":
                            pass
                        else:
                            depth -= 1
                    j += 1
                idx.setdefault(k, txt[start:j - 1])
            if idx:
                r = (max(idx) + 1, idx)
        self._clo_arity[cname] = r
        return r

    def coroutine_body(self, cname, creator):
        """resume function of the coroutine value `{coroutine@file:L:C: L:C (#0)}` created inside fn `creator`"""
        b = self.coro_bodies.get(("fn", creator))
        if b and b.startswith(creator + "::{closure#"):
            return b
        m = re.match(r"\{coroutine@([^:}]+):(\d+):(\d+): ", cname)
        if m:
            return self.coro_bodies.get(("block", m.group(1), int(m.group(2)), int(m.group(3))))
        return None

    # -- lookups
    def find_def(self, selft, trait, method):
        return self.defs.get((selft, trait, method))

    def get_fn(self, name):
        return self.funcs[name].parse()


def _match_brace(txt, i):
    depth = 0
    n = len(txt)
    j = i
    while j < n:
        c = txt[j]
        if c == "/" and txt.startswith("//", j):
            j = txt.index("\n", j)
            continue
        if c == "{":
            depth += 1
        elif c == "}":
            depth -= 1
            if depth == 0:
                return j
        j += 1
    raise ValueError


def _parse_variants(body):
    # remove comments and attributes
    body = re.sub(r"//[^\n]*", "", body)
    body = re.sub(r"#\[[^\]]*\]", "", body)
    out = []
    depth = 0
    cur = ""
    for ch in body:
        if ch in "({[<":
            depth += 1
        elif ch in ")}]>":
            depth -= 1
        if ch == "," and depth == 0:
            out.append(cur)
            cur = ""
        else:
            cur += ch
    if cur.strip():
        out.append(cur)
    names = []
    disc = 0
    res = {}
    for v in out:
        v = v.strip()
        m = re.match(r"(\w+)", v)
        if not m:
            continue
        md = re.search(r"=\s*(-?\d+)\s*$", v)
        if md:
            disc = int(md.group(1))
        res[m.group(1)] = disc
        disc += 1
    return res


BUILTIN_ENUMS = {
    "Option": {"None": 0, "Some": 1},
    "Result": {"Ok": 0, "Err": 1},
    "Poll": {"Ready": 0, "Pending": 1},
    "ControlFlow": {"Continue": 0, "Break": 1},
    "cmp::Ordering": {"Less": -1, "Equal": 0, "Greater": 1},
    "atomic::Ordering": {"Relaxed": 0, "Release": 1, "Acquire": 2, "AcqRel": 3, "SeqCst": 4},
    "Infallible": {},
}


# ------------------------------------------------------------------------------------------------ explorer


class Stats:
    def __init__(self):
        self.paths = 0
        self.steps = 0
        self.queries = 0
        self.solver_s = 0.0
        self.obligations = 0
        self.discharged = 0
        self.funcs = Counter()
        self.models = Counter()

    def merge(self, o):
        self.paths += o.paths
        self.steps += o.steps
        self.queries += o.queries
        self.solver_s += o.solver_s
        self.obligations += o.obligations
        self.discharged += o.discharged
        self.funcs.update(o.funcs)
        self.models.update(o.models)


class Violation:
    def __init__(self, label, model_vals, trace, detail=""):
        self.label = label
        self.model_vals = model_vals
        self.trace = trace
        self.detail = detail

    def __repr__(self):
        return f"Violation({self.label}, {self.model_vals}, {self.detail})"


class Frame:
    __slots__ = ("fn", "locals", "short")

    def __init__(self, fn):
        self.fn = fn
        self.locals = {}
        self.short = split_path(fn.name)[-1]

    def cell(self, idx):
        c = self.locals.get(idx)
        if c is None:
            c = Cell(MOVED, tag=f"{self.short}._{idx}")
            self.locals[idx] = c
        return c


class Interp:
    """One symbolic path. Create via Explorer."""

    def __init__(self, program, decisions, worklist, stats, models, loop_bound=12, timeout_ms=20000):
        self.P = program
        self.decisions = list(decisions)
        self.pos = 0
        self.worklist = worklist
        self.stats = stats
        self.models = models
        self.loop_bound = loop_bound
        self.solver = z3.Solver()
        self.solver.set("timeout", timeout_ms)
        self.pc = []
        self.trace = []
        self.inputs = {}
        self.fresh_n = 0
        self.violations = []
        self.frames = []
        self.env = {}  # scenario-level environment shared with models
        self.loop_bounds = {}  # function short name -> bound overriding loop_bound (only larger values are useful)
        self.fn_hooks = {}  # MIR function name -> callable(interp, fn, args), called on entry (recording only)
        self.call_depth = 0

    # ---- symbolic inputs / fresh names
    def sym(self, name, ty):
        if name in self.inputs:
            return self.inputs[name]
        if ty == "bool":
            v = B(z3.Bool(name))
        elif ty == "int":
            v = Z(z3.Int(name))
        else:
            v = I(z3.BitVec(name, INT_TYPES[ty][0]), ty)
        self.inputs[name] = v
        return v

    def fresh(self, prefix, ty):
        self.fresh_n += 1
        return self.sym(f"{prefix}!{self.fresh_n}", ty)

    # ---- solver interface
    def _check(self, *assumps):
        t0 = time.time()
        r = self.solver.check(*assumps)
        self.stats.queries += 1
        self.stats.solver_s += time.time() - t0
        if r == z3.unknown:
            raise Unsupported(f"solver returned unknown ({self.solver.reason_unknown()})")
        return r == z3.sat

    def assume(self, cond):
        if isinstance(cond, B):
            cond = cond.v
        cond = z3.simplify(cond)
        if z3.is_true(cond):
            return
        self.solver.add(cond)
        self.pc.append(cond)
        if z3.is_false(cond):
            raise PathAbort("assumption false")

    def feasible(self):
        return self._check()

    def branch(self, cond, label=""):
        """Decide a symbolic condition; forks when both outcomes are feasible."""
        if isinstance(cond, B):
            if cond.c is not None:
                return cond.c
            cond = cond.v
        elif isinstance(cond, bool):
            return cond
        cond = z3.simplify(cond)
        if z3.is_true(cond):
            return True
        if z3.is_false(cond):
            return False
        if self.pos < len(self.decisions):
            d = self.decisions[self.pos]
            self.pos += 1
        else:
            t = self._check(cond)
            f = self._check(z3.Not(cond))
            if t and f:
                self.worklist.append(self.decisions + [False])
                d = True
            elif t:
                d = True
            elif f:
                d = False
            else:
                raise PathAbort("infeasible path")
            self.decisions.append(d)
            self.pos += 1
        c = cond if d else z3.Not(cond)
        self.solver.add(c)
        self.pc.append(c)
        return d

    def choose(self, n, label=""):
        """Environment choice among n alternatives (all explored)."""
        if n <= 1:
            return 0
        if self.pos < len(self.decisions):
            d = self.decisions[self.pos]
            self.pos += 1
            return d
        for k in range(n - 1, 0, -1):
            self.worklist.append(self.decisions + [k])
        self.decisions.append(0)
        self.pos += 1
        return 0

    def concretize(self, v, label="", limit=64):
        """Return a concrete int for the I value `v`, forking over all feasible values (bounded by `limit`)."""
        c = v.concrete()
        if c is not None:
            return c
        n = 0
        while True:
            n += 1
            if n > limit:
                raise Unsupported(f"concretize: more than {limit} feasible values for {label}")
            if self.pos < len(self.decisions):
                # replay: decision holds ('val', x) or ('not', x)
                d = self.decisions[self.pos]
                self.pos += 1
                val = d[1]
                if d[0] == "val":
                    self.assume(v.v == val)
                    return _signed(val, v)
                self.assume(v.v != val)
                continue
            if not self._check():
                raise PathAbort("infeasible")
            m = self.solver.model()
            val = m.eval(v.v, model_completion=True).as_long()
            if self._check(v.v != val):
                self.worklist.append(self.decisions + [("not", val)])
            self.decisions.append(("val", val))
            self.pos += 1
            self.assume(v.v == val)
            return _signed(val, v)

    def check(self, formula, label, detail=""):
        """Proof obligation: `formula` must hold on this path for every input value."""
        if isinstance(formula, B):
            formula = formula.v
        if isinstance(formula, bool):
            formula = z3.BoolVal(formula)
        self.stats.obligations += 1
        f = z3.simplify(formula)
        if z3.is_true(f):
            self.stats.discharged += 1
            return True
        try:
            viol = self._check(z3.Not(f))
        except Unsupported as e:
            raise Unsupported(f"{e} while deciding obligation {label} ({detail})")
        if viol:
            m = self.solver.model()
            vals = {}
            for k, v in self.inputs.items():
                ev = m.eval(v.v, model_completion=True)
                if isinstance(v, B):
                    vals[k] = z3.is_true(ev)
                else:
                    x = ev.as_long()
                    vals[k] = _signed(x, v)
            self.violations.append(Violation(label, vals, list(self.trace), detail))
            return False
        self.stats.discharged += 1
        return True

    def model_values(self):
        if not self._check():
            return None
        m = self.solver.model()
        vals = {}
        for k, v in self.inputs.items():
            ev = m.eval(v.v, model_completion=True)
            vals[k] = z3.is_true(ev) if isinstance(v, B) else _signed(ev.as_long(), v)
        return vals

    def event(self, *e):
        self.trace.append(e)

    # ---- memory
    def read_loc(self, cell, path):
        v = cell.val
        for st in path:
            v = self._nav(v, st)
        return v

    def _nav(self, v, st):
        k = st[0]
        if k == "f":
            if isinstance(v, Ptr):
                return v  # Box/Unique/NonNull wrappers are transparent
            if isinstance(v, Agg):
                if v.name in TRANSPARENT and len(v.fields) == 1 and st[1] == 0:
                    return v.fields[0]
                try:
                    return v.fields[st[1]]
                except IndexError:
                    raise Unsupported(f"field {st[1]} of {v.name} (has {len(v.fields)})")
            if v is MOVED:
                raise Unsupported("read of field of moved/uninitialised value")
            raise Unsupported(f"field projection on {type(v).__name__} {v!r}")
        if k == "d":
            if isinstance(v, Coro) and st[1].startswith("variant#"):
                # saved locals of a suspend point
                sv = v.vars.get(st[1])
                if sv is None:
                    sv = v.vars[st[1]] = Agg("covariant", [])
                return sv
            if isinstance(v, Agg) and v.variant is not None and v.variant != st[1] and not st[1].startswith("variant#"):
                raise Unsupported(f"downcast to {st[1]} of {v.name}::{v.variant}")
            return v
        if k == "i":
            if isinstance(v, Agg):
                try:
                    return v.fields[st[1]]
                except IndexError:
                    raise RustPanic(f"index out of bounds: {st[1]} >= {len(v.fields)}")
            raise Unsupported(f"index on {v!r}")
        raise Unsupported(f"nav {st}")

    def write_loc(self, cell, path, val):
        if not path:
            cell.val = val
            return
        v = cell.val
        # skip trailing downcasts
        steps = [s for s in path]
        parent = v
        for st in steps[:-1]:
            parent = self._nav(parent, st)
        last = steps[-1]
        if last[0] == "d":
            raise Unsupported("write to downcast")
        if isinstance(parent, Agg):
            idx = last[1]
            if idx >= len(parent.fields) and parent.name == "covariant":
                parent.fields.extend([MOVED] * (idx + 1 - len(parent.fields)))
            if idx >= len(parent.fields):
                raise Unsupported(f"write field {idx} of {parent.name}")
            parent.fields[idx] = val
            return
        raise Unsupported(f"write into {parent!r} via {last}")

    def deref(self, v):
        """Pointer-like value -> Ptr."""
        if isinstance(v, Ptr):
            return v
        if isinstance(v, Agg) and len(v.fields) >= 1 and v.name in ("Pin", "Unique", "NonNull", "ManuallyDrop"):
            return self.deref(v.fields[0])
        raise Unsupported(f"deref of non-pointer {v!r}")

    def load(self, ptr):
        p = self.deref(ptr)
        return self.read_loc(p.cell, p.path)

    def store(self, ptr, val):
        p = self.deref(ptr)
        self.write_loc(p.cell, p.path, val)

    def alloc(self, val, tag="heap", kind="box"):
        return Ptr(Cell(val, tag=tag), (), kind)

    def place_loc(self, frame, place):
        cell = frame.cell(place.local)
        path = []
        for p in place.proj:
            k = p[0]
            if k == "deref":
                v = self.read_loc(cell, path)
                pt = self.deref(v)
                cell, path = pt.cell, list(pt.path)
            elif k == "field":
                path.append(("f", p[1]))
            elif k == "downcast":
                path.append(("d", p[1]))
            elif k == "index":
                iv = frame.cell(p[1]).val
                n = self.concretize(iv, "index")
                cont = self.read_loc(cell, path)
                if isinstance(cont, Agg) and not (0 <= n < len(cont.fields)):
                    raise RustPanic(f"index out of bounds: the len is {len(cont.fields)} but the index is {n}")
                path.append(("i", n))
            elif k == "cindex":
                cont = self.read_loc(cell, path)
                n = p[1] if not p[2] else len(cont.fields) - p[1]
                path.append(("i", n))
            else:
                raise Unsupported(f"projection {p}")
        return cell, path

    def read_place(self, frame, place):
        cell, path = self.place_loc(frame, place)
        return self.read_loc(cell, path)

    def write_place(self, frame, place, val):
        cell, path = self.place_loc(frame, place)
        self.write_loc(cell, path, val)

    # ---- operands / rvalues
    def eval_operand(self, frame, op):
        k = op[0]
        if k == "copy":
            return clone_value(self.read_place(frame, op[1]))
        if k == "move":
            return self.read_place(frame, op[1])
        return self.eval_const(frame, op[1])

    def eval_const(self, frame, text):
        t = text.strip()
        m = re.fullmatch(r"(-?\d+)_(\w+)", t)
        if m and m.group(2) in INT_TYPES:
            return I(int(m.group(1)), m.group(2))
        if t == "true":
            return B(True)
        if t == "false":
            return B(False)
        if t == "()":
            return unit()
        if t.startswith('"'):
            return Opaque("str", s=t)
        if t.startswith("'") and t.endswith("'"):
            return I(ord(t[1:-1].encode().decode("unicode_escape")), "char")
        if t.endswith("]") and "::promoted[" in t:
            idx = t[t.rindex("::promoted["):]
            name = frame.fn.name + idx
            if name in self.P.funcs:
                return self.exec_fn(self.P.get_fn(name), [])
            raise Unsupported(f"promoted {name}")
        h = self.models.const(self, t)
        if h is not None:
            return h
        segs = split_path(t)
        last = strip_generics_seg(segs[-1])
        cands = self.P.consts.get(last)
        if cands:
            if len(cands) > 1 and len(segs) >= 2:
                pre = strip_generics_seg(segs[-2])
                c2 = [c for c in cands if pre in c]
                if c2:
                    cands = c2
            return self.exec_fn(self.P.get_fn(cands[0]), [])
        if t.startswith("ZeroSized") or t.startswith("PhantomData"):
            return Agg("PhantomData", [])
        m = re.fullmatch(r"([A-Za-z_][\w:]*)\s*\{\{?\s*\}\}?", t)
        if m:
            # value of a field-less struct: `NoClock {  }`
            return Agg(base_type_name(m.group(1)), [])
        # enum variant constants such as `const std::cmp::Ordering::Less` are printed as aggregates, not consts
        return FnItem(t)

    def adt_name(self, path):
        """(type base name, variant name or None) for an aggregate path."""
        r = self.P._adt_cache.get(path)
        if r is None:
            r = self._adt_name(path)
            self.P._adt_cache[path] = r
        return r

    def _adt_name(self, path):
        segs = [s for s in split_path(path) if not s.startswith("<")]
        segs = [strip_generics_seg(s) for s in segs]
        if len(segs) >= 2:
            en, var = segs[-2], segs[-1]
            if en == "Ordering":
                en = "atomic::Ordering" if "atomic" in segs else "cmp::Ordering"
            if en in self.P.enums and var in self.P.enums[en]:
                return en, var
        return segs[-1], None

    def eval_rvalue(self, frame, rv):
        k = rv[0]
        if k == "use":
            return self.eval_operand(frame, rv[1])
        if k in ("ref", "rawref"):
            cell, path = self.place_loc(frame, rv[1])
            # enum downcasts are transparent; the suspend-point variants of a coroutine are separate storage
            return Ptr(cell, [s for s in path if s[0] != "d" or s[1].startswith("variant#")], "ref" if k == "ref" else "raw")
        if k == "aggregate":
            _, kind, name, ops, names = rv
            vals = [self.eval_operand(frame, o) for o in ops]
            if kind == "tuple":
                return Agg("tuple", vals)
            if kind == "array":
                return Agg("array", vals)
            if kind == "closure":
                need = self.P.closure_arity(name)
                if need is not None and len(vals) < need[0] and ops and ops[0][0] in ("move", "copy") and not ops[0][1].proj:
                    # rustc's MIR pretty-printer zips the capture operands with the captured *variables*, so a closure that
                    # captures several disjoint fields of one variable (edition 2021) is printed with its first operand
                    # only.  The operands are built by the statements just before the aggregate into consecutively
                    # numbered temporaries: recover them, checking each against the field type the closure body expects.
                    first = ops[0][1].local
                    for kf in range(len(vals), need[0]):
                        loc = first + kf
                        cellv = frame.locals.get(loc)
                        want = need[1].get(kf)
                        have = frame.fn.local_types.get(loc)
                        if cellv is None or cellv.val is MOVED or (want and have and _norm_ty(want) != _norm_ty(have)):
                            raise Unsupported(f"cannot recover capture {kf} of {name} (local _{loc}: {have} vs {want})")
                        vals.append(cellv.val)
                if name.startswith("{coroutine@"):
                    return Coro(name, vals, meta=names, body=self.P.coroutine_body(name, frame.fn.name))
                return Agg(name, vals, meta=names)
            tn, var = self.adt_name(name)
            if var is not None and not vals and not self.P.enums.get(tn, {}).get(var) is None and _fieldless(self.P.enums.get(tn)):
                pass
            return Agg(tn, vals, variant=var, meta=names)
        if k == "binop":
            return self.binop(rv[1], self.eval_operand(frame, rv[2]), self.eval_operand(frame, rv[3]))
        if k == "unop":
            return self.unop(rv[1], self.eval_operand(frame, rv[2]))
        if k == "cast":
            return self.cast(self.eval_operand(frame, rv[1]), rv[2], rv[3])
        if k == "discriminant":
            return self.discriminant(self.read_place(frame, rv[1]))
        if k == "repeat":
            v = self.eval_operand(frame, rv[1])
            n = self.eval_const(frame, rv[2]) if not rv[2].isdigit() else I(int(rv[2]), "usize")
            n = n.concrete() if isinstance(n, I) else None
            if n is None:
                raise Unsupported(f"repeat count {rv[2]}")
            return Agg("array", [clone_value(v) for _ in range(n)])
        if k == "len":
            v = self.read_place(frame, rv[1])
            return I(len(v.fields), "usize")
        if k == "shallowbox":
            return self.eval_operand(frame, rv[1])
        raise Unsupported(f"rvalue {rv}")

    def discriminant(self, v):
        if isinstance(v, CEnum):
            # the discriminant has the enum's own representation type (i8 for cmp::Ordering: MIR prints -1 as 255)
            return v.disc
        if isinstance(v, Coro):
            return I(v.state, "u32")
        if isinstance(v, Agg):
            if v.variant is None:
                return I(0, "isize")
            en = self.P.enums.get(v.name)
            if en is None or v.variant not in en:
                raise Unsupported(f"discriminant of {v.name}::{v.variant}")
            return I(en[v.variant], "isize")
        if isinstance(v, B):
            return I(z3.If(v.v, z3.BitVecVal(1, 64), z3.BitVecVal(0, 64)), "isize")
        raise Unsupported(f"discriminant of {v!r}")

    def binop(self, op, a, b):
        if isinstance(a, Ptr) or isinstance(b, Ptr):
            if op in ("Eq", "Ne") and isinstance(a, Ptr) and isinstance(b, Ptr):
                r = a.same_loc(b)
                return B(r if op == "Eq" else not r)
            raise Unsupported(f"pointer binop {op}")
        if isinstance(a, I) and isinstance(b, I) and a.c is not None and b.c is not None:
            r = _conc_binop(op, a, b)
            if r is not None:
                return r
        if isinstance(a, B) and isinstance(b, B):
            if a.c is not None and b.c is not None:
                r = {"Eq": a.c == b.c, "Ne": a.c != b.c, "BitAnd": a.c and b.c, "BitOr": a.c or b.c, "BitXor": a.c != b.c}.get(op)
                if r is not None:
                    return B(bool(r))
            x, y = a.v, b.v
            r = {"Eq": x == y, "Ne": x != y, "BitAnd": z3.And(x, y), "BitOr": z3.Or(x, y), "BitXor": z3.Xor(x, y)}.get(op)
            if r is None:
                raise Unsupported(f"bool binop {op}")
            return B(r)
        if isinstance(a, CEnum) and isinstance(b, CEnum):
            a, b = a.disc, b.disc
        if not (isinstance(a, I) and isinstance(b, I)):
            raise Unsupported(f"binop {op} on {a!r}, {b!r}")
        x, y = a.v, b.v
        w, sg = a.width, a.signed
        if op in ("Shl", "Shr", "ShlUnchecked", "ShrUnchecked"):
            if b.width != w:
                y = z3.ZeroExt(w - b.width, y) if b.width < w else z3.Extract(w - 1, 0, y)
            y = y & (w - 1)
            if op.startswith("Shl"):
                return I(x << y, a.ty)
            return I((x >> y) if sg else z3.LShR(x, y), a.ty)
        if op in ("Add", "AddUnchecked"):
            return I(x + y, a.ty)
        if op in ("Sub", "SubUnchecked"):
            return I(x - y, a.ty)
        if op in ("Mul", "MulUnchecked"):
            return I(x * y, a.ty)
        if op == "Div":
            return I((x / y) if sg else z3.UDiv(x, y), a.ty)
        if op == "Rem":
            return I(z3.SRem(x, y) if sg else z3.URem(x, y), a.ty)
        if op == "BitAnd":
            return I(x & y, a.ty)
        if op == "BitOr":
            return I(x | y, a.ty)
        if op == "BitXor":
            return I(x ^ y, a.ty)
        if op == "Eq":
            return B(x == y)
        if op == "Ne":
            return B(x != y)
        if op == "Lt":
            return B((x < y) if sg else z3.ULT(x, y))
        if op == "Le":
            return B((x <= y) if sg else z3.ULE(x, y))
        if op == "Gt":
            return B((x > y) if sg else z3.UGT(x, y))
        if op == "Ge":
            return B((x >= y) if sg else z3.UGE(x, y))
        if op == "Cmp":
            lt = (x < y) if sg else z3.ULT(x, y)
            return CEnum("cmp::Ordering", I(z3.If(lt, z3.BitVecVal(-1, 8), z3.If(x == y, z3.BitVecVal(0, 8), z3.BitVecVal(1, 8))), "i8"))
        if op in ("AddWithOverflow", "SubWithOverflow", "MulWithOverflow"):
            if op[0] == "A":
                r = x + y
                ov = z3.Not(z3.BVAddNoOverflow(x, y, sg)) if not sg else z3.Or(z3.Not(z3.BVAddNoOverflow(x, y, True)), z3.Not(z3.BVAddNoUnderflow(x, y)))
            elif op[0] == "S":
                r = x - y
                ov = z3.Not(z3.BVSubNoUnderflow(x, y, sg)) if not sg else z3.Or(z3.Not(z3.BVSubNoOverflow(x, y)), z3.Not(z3.BVSubNoUnderflow(x, y, True)))
            else:
                r = x * y
                ov = z3.Not(z3.BVMulNoOverflow(x, y, sg)) if not sg else z3.Or(z3.Not(z3.BVMulNoOverflow(x, y, True)), z3.Not(z3.BVMulNoUnderflow(x, y)))
            return Agg("tuple", [I(r, a.ty), B(ov)])
        raise Unsupported(f"binop {op}")

    def unop(self, op, a):
        if op == "Not":
            if isinstance(a, B):
                return B(not a.c) if a.c is not None else B(z3.Not(a.v))
            if isinstance(a, I):
                return I(~a.c, a.ty) if a.c is not None else I(~a.v, a.ty)
        if op == "Neg" and isinstance(a, I):
            return I(-a.c, a.ty) if a.c is not None else I(-a.v, a.ty)
        if op == "PtrMetadata":
            v = self.load(a)
            if isinstance(v, Agg):
                return I(len(v.fields), "usize")
        raise Unsupported(f"unop {op} on {a!r}")

    def cast(self, v, ty, kind):
        if kind.startswith("IntToInt"):
            ty = ty.strip()
            if isinstance(v, B):
                w = INT_TYPES[ty][0]
                if v.c is not None:
                    return I(1 if v.c else 0, ty)
                return I(z3.If(v.v, z3.BitVecVal(1, w), z3.BitVecVal(0, w)), ty)
            if isinstance(v, CEnum):
                v = v.disc
            if isinstance(v, Agg) and v.variant is not None:
                v = self.discriminant(v)
            if not isinstance(v, I) or ty not in INT_TYPES:
                raise Unsupported(f"IntToInt {v!r} -> {ty}")
            w = INT_TYPES[ty][0]
            if v.c is not None:
                return I(v.concrete(), ty)
            if w == v.width:
                return I(v.v, ty)
            if w < v.width:
                return I(z3.Extract(w - 1, 0, v.v), ty)
            return I(z3.SignExt(w - v.width, v.v) if v.signed else z3.ZeroExt(w - v.width, v.v), ty)
        if kind.startswith("PointerExposeProvenance") and isinstance(v, Ptr) and ty == "usize":
            # address of an allocation: a distinct non-zero number per allocation (numbered in first-use order, which is
            # deterministic on a path); only (in)equality of addresses is meaningful
            ids = self.env.setdefault("ptr_ids", {})
            k = id(v.cell)
            if k not in ids:
                ids[k] = 0x10000 * (len(ids) + 1)
            return I(ids[k], "usize")
        if kind.startswith("Subtype"):
            return v  # subtyping coercion (lifetimes only): identity
        if kind.startswith(("PtrToPtr", "PointerCoercion", "Transmute", "FnPtrToPtr")):
            if isinstance(v, (Ptr, FnItem, Agg, Opaque)):
                if kind.startswith("Transmute") and not isinstance(v, Ptr):
                    if isinstance(v, Agg) and v.name in ("NonNull", "Unique"):
                        return v
                    raise Unsupported(f"transmute of {v!r} to {ty}")
                return v
        raise Unsupported(f"cast {kind} of {v!r} to {ty}")

    # ---- drop glue
    def drop_value(self, v, depth=0):
        if v is MOVED or v is None or isinstance(v, (I, B, CEnum, FnItem)):
            return
        if depth > 40:
            raise Unsupported("drop recursion")
        if isinstance(v, Opaque):
            self.models.drop_opaque(self, v)
            return
        if isinstance(v, Ptr):
            if v.kind == "box":
                inner = self.read_loc(v.cell, v.path)
                self.drop_value(inner, depth + 1)
                v.cell.val = MOVED
            elif v.kind == "arc":
                self.models.drop_arc(self, v)
            return
        if isinstance(v, Coro):
            if self.models.drop_agg(self, v):
                return
            if v.state == 0:
                for f in v.fields:
                    self.drop_value(f, depth + 1)
            elif v.state >= 3:
                # a suspended coroutine is being cancelled: its live saved locals are dropped
                h = getattr(self.models, "drop_suspended", None)
                if not h or not h(self, v):
                    for sv in v.vars.values():
                        for f in sv.fields:
                            self.drop_value(f, depth + 1)
            v.state = 1
            return
        if isinstance(v, Agg):
            if self.models.drop_agg(self, v):
                return
            d = self.P.find_def(v.name, "Drop", "drop")
            if d:
                holder = Cell(v, tag="drop")
                self.exec_fn(self.P.get_fn(d[0]), [Ptr(holder, (), "ref")])
            for f in v.fields:
                self.drop_value(f, depth + 1)

    # ---- calls
    def runtime_type(self, v):
        n = 0
        while isinstance(v, Ptr) and n < 8:
            v = self.read_loc(v.cell, v.path)
            n += 1
        if isinstance(v, Agg):
            return v.name
        if isinstance(v, I):
            return v.ty
        if isinstance(v, B):
            return "bool"
        if isinstance(v, CEnum):
            return v.name
        if isinstance(v, Opaque):
            return v.tag
        if isinstance(v, FnItem):
            last = base_type_name(v.name)
            if last[:1].isupper() and "(" not in v.name:
                return last   # value of a unit struct (printed like a constant path)
            return "fn"
        return None

    def call(self, raw, args, frame=None):
        cal = raw if isinstance(raw, Callee) else _callee(raw)
        # 1. models by static name
        for nm in cal.names():
            h = self.models.lookup(nm)
            if h:
                self.stats.models[nm] += 1
                return h(self, cal, args)
        # 1b. coroutines: `<T as Future>::poll` on a coroutine value runs its resume function
        if cal.kind == "q" and cal.trait and args:
            tb = base_type_name(cal.trait)
            if tb == "IntoFuture" and cal.method == "into_future":
                return args[0]
            if tb == "IntoIterator" and cal.method == "into_iter" and isinstance(args[0], Agg) and self.P.find_def(args[0].name, "Iterator", "next"):
                return args[0]   # blanket impl for iterators defined in the crate
            if tb == "Future" and cal.method == "poll":
                ptr, tv = self.future_target(args[0])
                if isinstance(tv, Coro):
                    leaf = self.models.extra.get("<Pin as Future>::poll")
                    if leaf:
                        # a world that treats coroutine values as opaque leaf futures (driver-logic world)
                        self.stats.models["<Pin as Future>::poll"] += 1
                        return leaf(self, cal, args)
                    return self.resume(tv, ptr, args[1])
                if isinstance(tv, Opaque):
                    h = self.models.lookup(f"<{tv.tag} as Future>::poll")
                    if h:
                        self.stats.models[f"<{tv.tag} as Future>::poll"] += 1
                        return h(self, cal, args)
                if isinstance(tv, Agg) and ptr is not None:
                    d = self.P.find_def(tv.name, "Future", "poll")
                    if d:
                        return self.exec_fn(self.P.get_fn(self._pick(d, args)), [Agg("Pin", [Ptr(ptr.cell, ptr.path, "ref")]), args[1]])
        # 2. crate definitions by static name
        if cal.kind == "q" and cal.trait and (cal.selft.startswith("{closure@") or cal.selft.startswith("&{closure@")) \
                and base_type_name(cal.trait) in ("Fn", "FnMut", "FnOnce"):
            return self.call_closure(args[0], args[1])
        if cal.kind == "q" and cal.trait and not is_type_param(cal.selft):
            st, tr = base_type_name(cal.selft), base_type_name(cal.trait)
            d = self.P.find_def(st, tr, cal.method)
            if d:
                return self.exec_fn(self.P.get_fn(self._pick(d, args)), args)
        if cal.kind == "p":
            d = None
            if cal.selft:
                d = self.P.find_def(cal.selft, None, cal.method)
            if not d:
                d = self.P.find_def(None, None, cal.method) if (cal.selft is None or cal.selft[:1].islower()) else None
            if not d and cal.selft == "_":
                # macro-generated anonymous-const impls (pin_project): `module::_::<impl Type<..>>::method`
                m = re.search(r"::_::<impl ([A-Za-z_]\w*)", cal.raw)
                if m:
                    d = self.P.find_def(m.group(1), "#[pin_project]", cal.method)
            if d:
                return self.exec_fn(self.P.get_fn(self._pick(d, args)), args)
        # 3. dynamic dispatch on the runtime type of the receiver
        if cal.kind == "q" and args:
            # `<&T as Trait>::m(&&t, ..)`: std's blanket impls for references forward to T's impl with one reference
            # level removed from the Self-typed arguments
            nref = 0
            st = cal.selft
            while st.startswith("&"):
                nref += 1
                st = st[1:].lstrip()
                if st.startswith("mut "):
                    st = st[4:]
            if nref and base_type_name(cal.trait or "") in ("PartialOrd", "PartialEq", "Ord", "Eq", "Clone", "Hash", "Debug", "Display"):
                def strip(v):
                    for _ in range(nref):
                        if isinstance(v, Ptr):
                            inner = self.read_loc(v.cell, v.path)
                            if isinstance(inner, Ptr):
                                v = inner
                    return v
                args = [strip(a) for a in args]
            if cal.trait and base_type_name(cal.trait) == "Clone" and cal.method == "clone" and isinstance(args[0], Ptr):
                inner = self.read_loc(args[0].cell, args[0].path)
                if isinstance(inner, Ptr) and inner.kind == "box":
                    # `<Box<T> as Clone>::clone` (also Box<dyn Trait> through dyn_clone): clone the pointee, box the result
                    r = self.call("<T as Clone>::clone", [Ptr(inner.cell, inner.path, "ref")])
                    return self.alloc(r, tag="boxclone", kind="box")
            rt = self.runtime_type(args[0])
            if rt is not None:
                tr = base_type_name(cal.trait) if cal.trait else None
                if tr in ("Fn", "FnMut", "FnOnce") and isinstance(rt, str) and rt.startswith("{closure@"):
                    return self.call_closure(args[0], args[1])
                if tr == "PartialEq" and cal.method == "ne" and self.P.find_def(rt, "PartialEq", "eq"):
                    # provided method of PartialEq: !eq
                    r = self.call_fn(rt, "PartialEq", "eq", args)
                    return self.unop("Not", r)
                if tr == "PartialOrd" and cal.method in ("lt", "le", "gt", "ge") and self.P.find_def(rt, "PartialOrd", "partial_cmp"):
                    # provided methods of PartialOrd, defined through the type's own partial_cmp (as in core::cmp)
                    r = self.call_fn(rt, "PartialOrd", "partial_cmp", args)
                    if r.variant != "Some":
                        return B(False)
                    d = r.fields[0].disc.v
                    m1, z0, p1 = z3.BitVecVal(-1, 8), z3.BitVecVal(0, 8), z3.BitVecVal(1, 8)
                    return B({"lt": d == m1, "le": z3.Or(d == m1, d == z0), "gt": d == p1, "ge": z3.Or(d == p1, d == z0)}[cal.method])
                if tr == "Clone" and cal.method == "clone" and isinstance(rt, str) and rt.startswith("{closure@"):
                    # derived-like clone of a closure environment: captured values are cloned structurally (scalars and
                    # environment tokens copy, Arc pointers alias)
                    env = args[0]
                    while isinstance(env, Ptr):
                        env = self.read_loc(env.cell, env.path)
                    return clone_value(env)
                for nm in cal.names(selft_override=rt):
                    h = self.models.lookup(nm)
                    if h:
                        self.stats.models[nm] += 1
                        return h(self, cal, args)
                for rt2 in [rt] + TYPE_ALIASES.get(rt, []):
                    d = self.P.find_def(rt2, tr, cal.method)
                    if d:
                        return self.exec_fn(self.P.get_fn(self._pick(d, args)), args)
                if cal.trait:
                    # provided (default) method of a crate trait: `path::Trait::method`
                    tsegs = [strip_generics_seg(x) for x in split_path(cal.trait) if not x.startswith("<")]
                    dn = "::".join(tsegs + [cal.method])
                    if dn in self.P.funcs:
                        return self.exec_fn(self.P.get_fn(dn), args)
                    c = [n for n in self.P.funcs if n.endswith("::" + dn) or n == dn]
                    if len(c) == 1:
                        return self.exec_fn(self.P.get_fn(c[0]), args)
        extra = ""
        if cal.method == "poll" and args:
            extra = f", future {self.future_target(args[0])[1]!r}"[:300]
        raise Unsupported(f"callee {cal.raw}  (canonical {cal.names()}, runtime {self.runtime_type(args[0]) if args else None}{extra})")

    def future_target(self, pinned):
        """(pointer, value) of the future behind `Pin<&mut F>` / `Pin<Box<dyn Future>>` / `&mut Pin<..>` wrappers"""
        v = pinned
        ptr = None
        for _ in range(8):
            if isinstance(v, Agg) and v.name in ("Pin", "ManuallyDrop") and len(v.fields) == 1:
                v = v.fields[0]
            elif isinstance(v, Ptr):
                ptr = v
                v = self.read_loc(v.cell, v.path)
            else:
                break
        return ptr, v

    def resume(self, coro, ptr, cx):
        """one `poll` of coroutine value `coro` located at `ptr`"""
        if not coro.body:
            raise Unsupported(f"resume function of {coro.name} not found")
        if ptr is None:
            ptr = Ptr(Cell(coro, tag="coro"), (), "ref")
        return self.exec_fn(self.P.get_fn(coro.body), [Agg("Pin", [ptr]), cx])

    def _pick(self, names, args):
        if len(names) == 1:
            return names[0]
        # disambiguate by arity
        c = [n for n in names if self.P.get_fn(n).nargs == len(args)]
        if len(c) == 1:
            return c[0]
        # same-named types of sibling modules (ports::output::broadcaster / ports::source::broadcaster): an unqualified
        # type name refers to the one of the caller's own module tree
        st = getattr(self, "fn_stack", None)
        if c and st:
            for caller in reversed(st):
                seg = split_path(caller)[0]
                cc = [n for n in c if split_path(n)[0] == seg]
                if len(cc) == 1:
                    return cc[0]
                if cc:
                    break
        raise Unsupported(f"ambiguous callee among {names}")

    def call_closure(self, clo, argtuple):
        """Fn*/call with a closure environment value (by value or by reference) and an argument tuple."""
        env = clo
        n = 0
        while isinstance(env, Ptr) and n < 4:
            env = self.read_loc(env.cell, env.path)
            n += 1
        if not isinstance(env, Agg) or not env.name.startswith("{closure@"):
            h = self.models.lookup_closure(self, env)
            if h:
                return h(self, env, argtuple)
            raise Unsupported(f"call of non-closure {env!r}")
        fname = self.P.closures.get(env.name)
        if not fname:
            raise Unsupported(f"closure body not found for {env.name}")
        fn = self.P.get_fn(fname)
        first_ty = fn.params[0][1]
        if first_ty.startswith("&"):
            a0 = clo if isinstance(clo, Ptr) else Ptr(Cell(env, tag="cloenv"), (), "ref")
        else:
            a0 = env
        rest = list(argtuple.fields) if isinstance(argtuple, Agg) else []
        return self.exec_fn(fn, [a0] + rest)

    def call_fn(self, selft, trait, method, args):
        """Call a crate function by (self type base name, trait base name or None, method)."""
        d = self.P.find_def(selft, trait, method)
        if not d:
            raise Unsupported(f"no MIR definition for ({selft}, {trait}, {method})")
        return self.exec_fn(self.P.get_fn(self._pick(d, args)), args)

    def exec_fn(self, fn, args):
        fn.parse()
        self.stats.funcs[fn.name] += 1
        if fn.nargs != len(args) and fn.header.startswith("fn "):
            raise Unsupported(f"arity mismatch calling {fn.name}: {len(args)} vs {fn.nargs}")
        self.call_depth += 1
        if self.call_depth > 200:
            self.call_depth -= 1
            raise Unsupported("call depth: " + " <- ".join(reversed((getattr(self, "fn_stack", None) or [])[-4:])))
        hk = self.fn_hooks.get(fn.name) if self.fn_hooks else None
        if hk:
            hk(self, fn, args)
        frame = Frame(fn)
        for (idx, _ty), a in zip(fn.params, args):
            frame.cell(idx).val = a
        if not fn.blocks:
            # single-line constant
            self.call_depth -= 1
            raise Unsupported(f"empty body {fn.name}")
        bb = "bb0"
        visits = Counter()
        fstack = getattr(self, "fn_stack", None)
        if fstack is None:
            fstack = self.fn_stack = []
        fstack.append(fn.name)
        try:
            while True:
                visits[bb] += 1
                lb = self.loop_bounds.get(frame.short, self.loop_bound) if self.loop_bounds else self.loop_bound
                if visits[bb] > lb:
                    if True:
                        e = LoopBound(f"{fn.name} {bb}")
                        e.fn = frame.short
                        raise e
                nxt = None
                for st in fn.stmts(bb):
                    self.stats.steps += 1
                    k = st[0]
                    if k == "assign":
                        self.write_place(frame, st[1], self.eval_rvalue(frame, st[2]))
                    elif k == "nop":
                        pass
                    elif k == "goto":
                        nxt = st[1]
                    elif k == "call":
                        _, dest, func, aops, targets = st
                        avals = [self.eval_operand(frame, o) for o in aops]
                        m = re.fullmatch(r"(?:move |copy )?_(\d+)", func)
                        if m:
                            fv = frame.cell(int(m.group(1))).val
                            if isinstance(fv, FnItem):
                                r = self.call(fv.name, avals, frame)
                            else:
                                r = self.call_closure(fv, Agg("tuple", avals))
                        else:
                            r = self.call(func, avals, frame)
                        if "return" not in targets:
                            raise Unsupported(f"diverging call returned: {func}")
                        self.write_place(frame, dest, r)
                        nxt = targets["return"]
                    elif k == "switch":
                        v = self.eval_operand(frame, st[1])
                        nxt = self.switch(v, st[2], st[3])
                    elif k == "assert":
                        _, neg, cop, msg, targets = st
                        c = self.eval_operand(frame, cop)
                        if c.c is not None:
                            ok = (not c.c) if neg else c.c
                        else:
                            ok = z3.Not(c.v) if neg else c.v
                        if self.branch(ok, "assert"):
                            nxt = targets["success"]
                        else:
                            raise RustPanic(msg, fn.name)
                    elif k == "drop":
                        cell, path = self.place_loc(frame, st[1])
                        v = self.read_loc(cell, path)
                        self.drop_value(v)
                        nxt = st[2].get("return")
                    elif k == "return":
                        return frame.cell(0).val if frame.cell(0).val is not MOVED else unit()
                    elif k == "unreachable":
                        raise Unsupported(f"`unreachable` reached in {fn.name} {bb}")
                    elif k == "resume":
                        raise Unsupported("resume")
                    elif k == "setdiscr":
                        tv = self.read_place(frame, st[1])
                        if not isinstance(tv, Coro):
                            raise Unsupported(f"SetDiscriminant on {tv!r}")
                        tv.state = st[2]
                    elif k == "assume":
                        c = self.eval_operand(frame, st[1])
                        self.assume(c)
                    else:
                        raise Unsupported(f"statement {st}")
                if nxt is None:
                    raise Unsupported(f"block {bb} of {fn.name} has no terminator")
                bb = nxt
        finally:
            self.call_depth -= 1
            fstack.pop()

    def switch(self, v, cases, otherwise):
        if isinstance(v, B):
            # bool: 0 -> false
            for val, tgt in cases:
                if val == 0:
                    return otherwise if self.branch(v) else tgt
                if val == 1:
                    return tgt if self.branch(v) else otherwise
            raise Unsupported("switch on bool")
        if isinstance(v, CEnum):
            v = v.disc
        if not isinstance(v, I):
            raise Unsupported(f"switchInt on {v!r}")
        w = v.width
        if v.c is not None:
            mask = (1 << w) - 1
            for val, tgt in cases:
                if (val & mask) == v.c:
                    return tgt
            if otherwise is None:
                raise PathAbort("no switch target")
            return otherwise
        for val, tgt in cases:
            if self.branch(v.v == z3.BitVecVal(val, w)):
                return tgt
        if otherwise is None:
            raise PathAbort("no switch target")
        return otherwise


def _norm_ty(t):
    return re.sub(r"'(?:\w+|\{erased\})\s*", "", t).replace(" ", "")


def _conc_binop(op, a, b):
    """Binary operation on two concrete integers, computed in python with Rust's wrapping/overflow-flag semantics.
    Returns None for operators left to the z3 path."""
    w, sg = a.width, a.signed
    mask = (1 << w) - 1
    x, y = a.c, b.c

    def s(v, ww=w):
        return v - (1 << ww) if v >> (ww - 1) else v

    sx, sy = (s(x), s(y, b.width)) if sg else (x, y)
    if op in ("Add", "AddUnchecked"):
        return I((x + y) & mask, a.ty)
    if op in ("Sub", "SubUnchecked"):
        return I((x - y) & mask, a.ty)
    if op in ("Mul", "MulUnchecked"):
        return I((sx * sy) & mask, a.ty)
    if op == "BitAnd":
        return I(x & y, a.ty)
    if op == "BitOr":
        return I(x | y, a.ty)
    if op == "BitXor":
        return I(x ^ y, a.ty)
    if op == "Eq":
        return B(x == y)
    if op == "Ne":
        return B(x != y)
    if op == "Lt":
        return B(sx < sy)
    if op == "Le":
        return B(sx <= sy)
    if op == "Gt":
        return B(sx > sy)
    if op == "Ge":
        return B(sx >= sy)
    if op in ("Shl", "ShlUnchecked"):
        return I((x << (b.c & (w - 1))) & mask, a.ty)
    if op in ("Shr", "ShrUnchecked"):
        return I((sx >> (b.c & (w - 1))) & mask, a.ty)
    if op in ("AddWithOverflow", "SubWithOverflow", "MulWithOverflow"):
        r = sx + sy if op[0] == "A" else (sx - sy if op[0] == "S" else sx * sy)
        lo, hi = (-(1 << (w - 1)), (1 << (w - 1)) - 1) if sg else (0, mask)
        return Agg("tuple", [I(r & mask, a.ty), B(not (lo <= r <= hi))])
    if op == "Cmp":
        return CEnum("cmp::Ordering", I(-1 if sx < sy else (0 if sx == sy else 1), "i8"))
    if op == "Div" and y != 0 and not sg:
        return I(x // y, a.ty)
    if op == "Rem" and y != 0 and not sg:
        return I(x % y, a.ty)
    return None


TYPE_ALIASES = {"TaiTime": ["MonotonicTime"]}
TRANSPARENT = {"CachePadded", "ManuallyDrop", "UnsafeCell", "Cell", "MaybeUninit"}


def _fieldless(en):
    return True


def _signed(x, v):
    if isinstance(v, Z):
        return x
    if v.signed and x >= 1 << (v.width - 1):
        x -= 1 << v.width
    return x


_callee_cache = {}


def _callee(raw):
    c = _callee_cache.get(raw)
    if c is None:
        c = Callee(raw)
        _callee_cache[raw] = c
    return c


class Explorer:
    """Runs a scenario function over all feasible paths."""

    def __init__(self, program, models_factory, loop_bound=12, max_paths=200000, timeout_ms=20000, budget_s=None):
        self.budget_s = budget_s
        self.P = program
        self.models_factory = models_factory
        self.loop_bound = loop_bound
        self.max_paths = max_paths
        self.timeout_ms = timeout_ms
        self.stats = Stats()

    def explore(self, scenario, on_path_end=None):
        """scenario(interp) is run once per path. Returns (violations, outcomes) where outcomes counts path ends."""
        worklist = [[]]
        violations = []
        outcomes = Counter()
        t_start = time.time()
        while worklist:
            dec = worklist.pop()
            if self.stats.paths >= self.max_paths:
                raise Unsupported(f"path budget exhausted ({self.max_paths})")
            if self.budget_s and time.time() - t_start > self.budget_s:
                raise Unsupported(f"time budget exhausted ({self.budget_s}s, {self.stats.paths} paths explored, {len(worklist)} pending)")
            it = Interp(self.P, dec, worklist, self.stats, self.models_factory(), self.loop_bound, self.timeout_ms)
            self.stats.paths += 1
            try:
                scenario(it)
                outcomes["ok"] += 1
            except PathAbort:
                outcomes["abort"] += 1
            except RustPanic as e:
                outcomes["panic"] += 1
                it.event("PANIC", e.msg, e.where)
                if on_path_end:
                    on_path_end(it, e)
            except LoopBound as e:
                outcomes["loopbound"] += 1
                if on_path_end:
                    on_path_end(it, e)
                else:
                    raise
            violations.extend(it.violations)
        return violations, outcomes
