"""The "driver logic" world: a real `Simulation` + `Scheduler` built through their real constructors (interpreted from
the MIR), with the executor, the clock and the leaf futures replaced by recording environment models.

Environment models (trusted base, listed in the evidence):
  * Executor::spawn_and_forget(fut)   -> appends `fut` to the pending list
  * Executor::run(timeout)            -> runs every pending future to completion (in spawn order, or in an order chosen
                                         by the environment when `env['permute']` is set), then returns Ok(()) or the
                                         injected ExecutorError
  * leaf futures                      -> opaque tokens; running one records ('fire', id, occurrence, time read through
                                         the real Scheduler::time()) and executes the effect script attached to the id
  * keyed leaf futures                -> as above but first re-check the real ActionKey::is_cancelled (this is what
                                         `send_keyed_event` does inside the model task; the coroutine itself is not interpreted)
  * <dyn Clock>::synchronize(t)       -> records ('sync', t) and returns the scripted/symbolic SyncStatus
"""
import z3

from .interp import RustPanic, Unsupported
from .models import Models, mk_dur, mk_time, none, ok, err, some, deref_all, time_lt, time_eq
from .values import Agg, B, CEnum, Cell, I, Opaque, Ptr, clone_value, unit

NANOS = 1_000_000_000


class ModelPanic(Exception):
    """A scripted handler panic: the executor model stops the current run and reports ExecutorError::Panic."""


def ref(v, tag="tmp"):
    return Ptr(Cell(v, tag=tag), (), "ref")


class SimWorld:
    def __init__(self, it, t0, tolerance=None, clock_script=None, names=None, observers=None):
        self.it = it
        it.env["world"] = self
        self.spawned = []
        self.effects = {}       # leaf id -> callable(world, occurrence)
        self.clock_script = clock_script  # callable(world, t) -> SyncStatus value, or None => Synchronized
        self.exec_fault = None  # callable(world) -> ExecutorError value or None, consulted at each run()
        self.permute = False
        self.pending_mode = False   # leaf futures inside a SeqFuture may answer Pending once (suspended send)
        self.polled_once = set()
        self.fired = []         # (id, occ, time value)
        self.gen_count = {}
        self.install_models(it.models)
        pq = it.call_fn("PriorityQueue", None, "new", [])
        self.queue_arc = it.alloc(Agg("Mutex", [pq, B(False)]), tag="schedq", kind="arc")
        tat = it.call_fn("TearableAtomicTime", None, "new", [t0])
        time_cell = it.call_fn("SyncCell", None, "new", [tat])
        reader = it.call_fn("SyncCell", None, "reader", [ref(time_cell, "timecell")])
        self.scheduler = it.call_fn("Scheduler", None, "new", [Ptr(self.queue_arc.cell, (), "arc"), reader])
        self.sched_cell = Cell(self.scheduler, tag="scheduler")
        clock = it.alloc(Opaque("TestClock"), tag="clock", kind="box")
        tol = none() if tolerance is None else some(tolerance)
        names_v = Agg("Vec", [Opaque("String", s=n) for n in (names or [])])
        obs_v = Agg("Vec", list(observers or []))
        sim = it.call_fn("Simulation", None, "new", [Opaque("Executor"), self.queue_arc, time_cell, clock, tol,
                                                    mk_dur(0), obs_v, names_v])
        self.sim_cell = Cell(sim, tag="sim")

    # ------------------------------------------------------------------ handles
    def sim_ref(self):
        return Ptr(self.sim_cell, (), "ref")

    def sched_ref(self):
        return Ptr(self.sched_cell, (), "ref")

    def queue(self):
        m = self.it.read_loc(self.queue_arc.cell, ())
        return m.fields[0]

    def queue_items(self):
        """list of (key Agg(tuple[time, origin]), action value, epoch) currently in the real queue's heap"""
        pq = self.queue()
        heap = pq.fields[0]
        return [(x.fields[0], x.fields[1], x.fields[2]) for x in heap.fields]

    def now(self):
        return self.it.call_fn("Simulation", None, "time", [self.sim_ref()])

    def is_terminated(self):
        sim = self.sim_cell.val
        return sim.fields[-1]

    # ------------------------------------------------------------------ actions (built through the real constructors)
    def new_leaf(self, lid):
        return Opaque("LeafFut", id=lid, occ=0)

    def action_once(self, lid):
        oa = self.it.call_fn("OnceAction", None, "new", [self.new_leaf(lid)])
        return self.it.call_fn("Action", None, "new", [oa])

    def action_periodic(self, lid, period):
        pa = self.it.call_fn("PeriodicAction", None, "new", [Opaque("Gen", id=lid), period])
        return self.it.call_fn("Action", None, "new", [pa])

    def new_key(self):
        return self.it.call_fn("ActionKey", None, "new", [])

    def key_clone(self, key):
        return self.it.call_fn("ActionKey", "Clone", "clone", [ref(key, "key")])

    def action_keyed_once(self, lid, key):
        ka = self.it.call_fn("KeyedOnceAction", None, "new", [Opaque("KeyedGen", id=lid), self.key_clone(key)])
        return self.it.call_fn("Action", None, "new", [ka])

    def action_keyed_periodic(self, lid, period, key):
        ka = self.it.call_fn("KeyedPeriodicAction", None, "new", [Opaque("KeyedGen", id=lid), period, self.key_clone(key)])
        return self.it.call_fn("Action", None, "new", [ka])

    def cancel(self, key):
        self.it.call_fn("ActionKey", None, "cancel", [self.key_clone(key)])

    def key_cancelled(self, key):
        return self.it.call_fn("ActionKey", None, "is_cancelled", [ref(key, "key")])

    # ------------------------------------------------------------------ driver commands
    def schedule(self, deadline, action, origin=None):
        """Scheduler::schedule(deadline, action) for the global origin, GlobalScheduler::schedule_from for a model origin.
        Returns the Result value."""
        if origin is None:
            return self.it.call_fn("Scheduler", None, "schedule", [self.sched_ref(), deadline, action])
        gs = Ptr(self.sched_cell, (("f", 0),), "ref")
        return self.it.call_fn("GlobalScheduler", None, "schedule_from", [gs, deadline, action, origin])

    # -- the event API: Scheduler::schedule_*event (origin 0) and Context::schedule_*event (model origins); the leaf future
    #    is the real coroutine value built by process_event / send_keyed_event (opaque to the interpreter)
    def address(self, origin):
        return Agg("Address", [Opaque("Sender", origin=origin)])

    def context(self, origin):
        cx = self._contexts.get(origin) if hasattr(self, "_contexts") else None
        if cx is None:
            if not hasattr(self, "_contexts"):
                self._contexts = {}
            gs = clone_value(self.it.read_loc(self.sched_cell, (("f", 0),)))
            cxv = self.it.call_fn("Context", None, "new", [Opaque("String", s="m%d" % origin), gs, self.address(origin)])
            cx = Cell(cxv, tag="context%d" % origin)
            self._contexts[origin] = cx
        return Ptr(cx, (), "ref")

    def schedule_event(self, kind, deadline, lid, period, origin, keys):
        it = self.it
        func = Opaque("InputFn", name="R::fire")
        arg = I(lid, "u64")
        meth = {"once": "schedule_event", "periodic": "schedule_periodic_event", "keyed": "schedule_keyed_event",
                "kperiodic": "schedule_keyed_periodic_event"}[kind]
        args = [deadline] + ([period] if kind in ("periodic", "kperiodic") else []) + [func, arg]
        if origin == 0:
            r = it.call_fn("Scheduler", None, meth, [self.sched_ref()] + args + [self.address(1)])
        else:
            r = it.call_fn("Context", None, meth, [self.context(origin)] + args)
        if kind in ("keyed", "kperiodic") and r.variant == "Ok":
            keys[lid] = r.fields[0]
            return Agg("Result", [unit()], variant="Ok")
        return r

    def step(self):
        return self.it.call_fn("Simulation", None, "step", [self.sim_ref()])

    def step_until(self, deadline):
        return self.it.call_fn("Simulation", None, "step_until", [self.sim_ref(), deadline])

    def process(self, action):
        return self.it.call_fn("Simulation", None, "process", [self.sim_ref(), action])

    # ------------------------------------------------------------------ environment models
    def install_models(self, M):
        w = self

        def spawn(it, cal, args):
            fut = args[1]
            w.spawned.append(fut)
            it.event("spawn", w.describe(fut))
            return unit()

        def run(it, cal, args):
            it.event("run-begin")
            pending, w.spawned = w.spawned, []
            order = list(range(len(pending)))
            if w.permute and len(pending) > 1:
                # environment-chosen task order
                rest = order
                order = []
                while rest:
                    k = it.choose(len(rest), "task-order")
                    order.append(rest.pop(k))
            try:
                for i in order:
                    w.run_future(pending[i])
            except ModelPanic:
                # the single-threaded executor stops at the first panic; tasks not yet run stay unexecuted
                it.event("run-end")
                mid = Agg("ModelId", [I(0, "usize")])
                payload = it.alloc(Opaque("Payload", is_send_error=False), tag="payload", kind="box")
                return err(Agg("ExecutorError", [mid, payload], variant="Panic"))
            # futures spawned while running (none in this world) would be handled here
            if w.spawned:
                raise Unsupported("future spawned during run")
            it.event("run-end")
            if w.exec_fault:
                e = w.exec_fault(w)
                if e is not None:
                    return err(e)
            return ok(unit())

        def sync(it, cal, args):
            t = args[1]
            it.event("sync", t)
            if w.clock_script:
                return w.clock_script(w, t)
            return Agg("SyncStatus", [], variant="Synchronized")

        def gen_call(it, cal, args):
            g = args[0]
            n = w.gen_count.get(("call", g.data["id"]), 0)
            return Opaque("LeafFut", id=g.data["id"], occ=g.data.get("occ", 0))

        def gen_clone(it, cal, args):
            g = deref_all(it, args[0])
            return Opaque(g.tag, id=g.data["id"], occ=g.data.get("occ", 0) + 1)

        def kgen_call(it, cal, args):
            g = args[0]
            key = args[1].fields[0]
            return Opaque("KeyedLeafFut", id=g.data["id"], occ=g.data.get("occ", 0), key=key)

        def pin_poll(it, cal, args):
            if w.pending_mode:
                # a send that finds the target mailbox full suspends: the sub-future answers Pending once (environment
                # choice) and completes when polled again
                leaf = args[0]
                if isinstance(leaf, Agg) and leaf.name == "Pin":
                    leaf = leaf.fields[0]   # Pin<&mut F>: the location of the sub-future inside the SeqFuture's vector
                key = (id(leaf.cell), leaf.path) if isinstance(leaf, Ptr) else id(leaf)
                if key not in w.polled_once:
                    w.polled_once.add(key)
                    if it.choose(2, "leaf-pending") == 1:
                        it.event("leaf-pending")
                        return Agg("Poll", [], variant="Pending")
            w.run_future(args[0])
            return Agg("Poll", [unit()], variant="Ready")

        M.extra.update({
            "Executor::spawn_and_forget": spawn,
            "executor::Executor::spawn_and_forget": spawn,
            "Executor::run": run,
            "executor::Executor::run": run,
            "<TestClock as Clock>::synchronize": sync,
            "<Gen as FnOnce>::call_once": gen_call,
            "<Gen as Clone>::clone": gen_clone,
            "<KeyedGen as FnOnce>::call_once": kgen_call,
            "<KeyedGen as Clone>::clone": gen_clone,
            "<Pin as Future>::poll": pin_poll,
            "<LeafFut as Future>::poll": pin_poll,
            "<KeyedLeafFut as Future>::poll": pin_poll,
            "<Payload as Any>::type_id": lambda it, cal, args: Opaque("TypeId", send_error=bool(deref_all(it, args[0]).data.get("is_send_error"))),
            "TypeId::of": lambda it, cal, args: Opaque("TypeId", send_error=("SendError" in cal.raw)),
            "<TypeId as PartialEq>::eq": lambda it, cal, args: B(deref_all(it, args[0]).data == deref_all(it, args[1]).data),
            "<TypeId as PartialEq>::ne": lambda it, cal, args: B(deref_all(it, args[0]).data != deref_all(it, args[1]).data),
            "<Address as Into>::into": lambda it, cal, args: clone_value(deref_all(it, args[0])),
            "<&Address as Into>::into": lambda it, cal, args: clone_value(deref_all(it, args[0])),
            "Sender::channel_id": lambda it, cal, args: I(deref_all(it, args[0]).data["origin"], "usize"),
            "<Sender as Clone>::clone": lambda it, cal, args: deref_all(it, args[0]),
            "<InputFn as Clone>::clone": lambda it, cal, args: deref_all(it, args[0]),
            "<TestObserver as ChannelObserver>::len": lambda it, cal, args: deref_all(it, args[0]).data["len"],
            "Poll::is_ready": lambda it, cal, args: B(deref_all(it, args[0]).variant == "Ready"),
            "Poll::is_pending": lambda it, cal, args: B(deref_all(it, args[0]).variant == "Pending"),
        })

    def describe(self, fut):
        it = self.it
        v = fut
        n = 0
        while n < 10:
            n += 1
            if isinstance(v, Ptr):
                v = it.read_loc(v.cell, v.path)
            elif isinstance(v, Agg) and v.name == "Pin":
                v = v.fields[0]
            elif isinstance(v, Agg) and v.name == "OnceAction":
                v = v.fields[0]
            else:
                break
        if isinstance(v, Agg) and isinstance(v.name, str) and v.name.startswith(("{async fn body of", "{coroutine@", "{async ")):
            f = dict(zip(v.meta or [], v.fields))
            return ("Coroutine", f["arg"].concrete() if "arg" in f else None, 0)
        if isinstance(v, Opaque):
            return (v.tag, v.data.get("id"), v.data.get("occ"))
        if isinstance(v, Agg) and v.name == "SeqFuture":
            return ("Seq", [self.describe(x) for x in v.fields[0].fields])
        return (type(v).__name__, getattr(v, "name", None))

    def run_future(self, fut):
        it = self.it
        v = fut
        n = 0
        while True:
            n += 1
            if n > 12:
                raise Unsupported("run_future nesting")
            if isinstance(v, Ptr):
                v = it.read_loc(v.cell, v.path)
                continue
            if isinstance(v, Agg) and v.name == "Pin":
                v = v.fields[0]
                continue
            if isinstance(v, Agg) and v.name == "OnceAction":
                v = v.fields[0]
                continue
            break
        if isinstance(v, Agg) and isinstance(v.name, str) and v.name.startswith(("{async fn body of", "{coroutine@", "{async ")):
            # the real coroutine built by scheduler::process_event / send_keyed_event (event API): opaque leaf; the
            # keyed variant re-checks its key inside the model task right before calling the handler
            f = dict(zip(v.meta or [], v.fields))
            if "arg" not in f:
                raise Unsupported(f"leaf coroutine without `arg`: {v.name}")
            v = Opaque("KeyedLeafFut" if "event_key" in f else "LeafFut", id=f["arg"].concrete(), occ=0, key=f.get("event_key"), recheck=True)
        if isinstance(v, Opaque) and v.tag in ("LeafFut", "KeyedLeafFut"):
            lid, occ = v.data["id"], v.data.get("occ", 0)
            if v.tag == "KeyedLeafFut" and v.data.get("recheck"):
                c = self.key_cancelled(v.data["key"])
                if it.branch(c.v, "keyed-recheck"):
                    it.event("skip-cancelled", lid, occ)
                    return
            it.env["leaf_time_read"] = True
            try:
                t = it.call_fn("Scheduler", None, "time", [self.sched_ref()])
            finally:
                it.env["leaf_time_read"] = False
            it.event("fire", lid, occ, t)
            self.fired.append((lid, occ, t))
            eff = self.effects.pop(lid, None)  # the handler script of an action runs once (first occurrence only)
            if eff:
                eff(self, occ)
            return
        if isinstance(v, Agg) and v.name == "SeqFuture":
            holder = Cell(v, tag="seq")
            # the executor polls the compound future again each time it is woken (every suspended send is eventually
            # resumed: C12's wake-up clause, assumed); bounded by the number of sub-futures
            for _ in range(len(v.fields[0].fields) + 2):
                r = it.call_fn("SeqFuture", "Future", "poll", [Agg("Pin", [Ptr(holder, (), "ref")]), ref(Opaque("Context"), "cx")])
                if r.variant == "Ready":
                    return
                if not self.pending_mode:
                    raise Unsupported("SeqFuture returned Pending in a world whose leaves are always ready")
            it.event("seq-never-completes")
            return
        raise Unsupported(f"run_future: {v!r}")


def make_models():
    return Models()
