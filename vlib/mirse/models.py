"""Models of the functions that leave the crate (std, tai_time, …).  This table is the trusted base of E2; every
model used on a run is listed in the evidence (`stats.models`)."""
import re

import z3

from .interp import RustPanic, Unsupported, base_type_name
from .values import (INT_TYPES, MOVED, Agg, B, CEnum, Cell, FnItem, I, Opaque, Ptr, Z, clone_value, unit)

NANOS = 1_000_000_000

TABLE = {}


def model(*names):
    def deco(f):
        for n in names:
            TABLE[n] = f
        return f
    return deco


def some(v):
    return Agg("Option", [v], variant="Some")


def none():
    return Agg("Option", [], variant="None")


def ok(v):
    return Agg("Result", [v], variant="Ok")


def err(v):
    return Agg("Result", [v], variant="Err")


def ordering(i8expr):
    return CEnum("cmp::Ordering", I(i8expr, "i8"))


def ord_from(lt, eq):
    return ordering(z3.If(lt, z3.BitVecVal(-1, 8), z3.If(eq, z3.BitVecVal(0, 8), z3.BitVecVal(1, 8))))


def deref_all(it, v, maxn=8):
    n = 0
    while isinstance(v, Ptr) and n < maxn:
        v = it.read_loc(v.cell, v.path)
        n += 1
    return v


# ----------------------------------------------------------------------------------------- time arithmetic (tai_time / Duration)


# A tai_time::TaiTime<0> / std::time::Duration is modelled by its TOTAL number of nanoseconds as a mathematical integer
# (z3 Int) with the range of the real type as a side constraint:  tot = secs * 10^9 + subsec_nanos.
# Comparison is integer comparison, `+ Duration` is integer addition with the real overflow condition
# (tai_time 0.3.3 `checked_add`: the resulting seconds must fit an i64). The (secs, nanos) components only appear when
# the crate splits a timestamp to store it in two atomics; they are carried as opaque scalars with provenance and
# recombined by `TaiTime::new` (see _t_secs/_t_new).  This model is validated against the real tai_time by an E1 harness.
T_MAX = ((1 << 63) - 1) * NANOS + NANOS - 1
T_MIN = -(1 << 63) * NANOS
D_MAX = ((1 << 64) - 1) * NANOS + NANOS - 1


def mk_time(tot, nanos=None):
    if nanos is not None:  # (secs, nanos) given as python ints
        tot = tot * NANOS + nanos
    return Agg("TaiTime", [tot if isinstance(tot, Z) else Z(tot)])


def mk_dur(tot, nanos=None):
    if nanos is not None:
        tot = tot * NANOS + nanos
    return Agg("Duration", [tot if isinstance(tot, Z) else Z(tot)])


def time_lt(a, b):
    return a.fields[0].v < b.fields[0].v


def time_eq(a, b):
    return a.fields[0].v == b.fields[0].v


def dur_lt(a, b):
    return a.fields[0].v < b.fields[0].v


def time_add_expr(t, d):
    """(total, no_overflow) of TaiTime(t) + Duration(d) — the single definition shared by the model of
    `<TaiTime as Add<Duration>>::add` and by the specification side."""
    r = z3.simplify(t + d)
    return r, r <= T_MAX


def time_add_dur(it, t, d):
    r, okc = time_add_expr(t.fields[0].v, d.fields[0].v)
    if not it.branch(okc, "time-add-overflow"):
        raise RustPanic("overflow when adding duration to timestamp", "tai_time")
    return mk_time(Z(r))


def _component(it, tv, which):
    """seconds / sub-second nanoseconds of a modelled timestamp or duration: an opaque machine scalar with provenance;
    concrete when the total is concrete."""
    tot = tv.fields[0]
    c = tot.concrete()
    ty = {"TaiTime": ("i64", "u32"), "Duration": ("u64", "u32")}[tv.name][0 if which == "secs" else 1]
    if c is not None:
        val = c // NANOS if which == "secs" else c % NANOS
        return I(val, ty, prov=(tv, which))
    cache = it.env.setdefault("time_components", {})
    key = (tot.v.get_id(), tv.name, which)
    r = cache.get(key)
    if r is None:
        r = it.fresh(f"{which}", ty)
        r = I(r.v, ty, prov=(tv, which))
        cache[key] = r
    return r


@model("TaiTime::as_secs", "Duration::as_secs")
def _t_secs(it, cal, args):
    return _component(it, deref_all(it, args[0]), "secs")


@model("TaiTime::subsec_nanos", "Duration::subsec_nanos")
def _t_nanos(it, cal, args):
    return _component(it, deref_all(it, args[0]), "nanos")


def _recombine(it, s, n, name):
    ps, pn = getattr(s, "prov", None), getattr(n, "prov", None)
    if ps and pn and ps[1] == "secs" and pn[1] == "nanos" and ps[0].name == name and \
            (ps[0] is pn[0] or z3.eq(ps[0].fields[0].v, pn[0].fields[0].v)):
        return Agg(name, [ps[0].fields[0]])
    cs, cn = s.concrete(), n.concrete()
    if cs is not None and cn is not None:
        return Agg(name, [Z(cs * NANOS + cn)])
    raise Unsupported(f"{name}::new from components of different provenance (torn value) — needs the E3 encoding")


@model("TaiTime::new")
def _t_new(it, cal, args):
    s, n = args
    cn = n.concrete()
    if cn is not None and cn >= NANOS:
        return none()
    return some(_recombine(it, s, n, "TaiTime"))


@model("Duration::new", "std::time::Duration::new")
def _d_new(it, cal, args):
    s, n = args
    cn = n.concrete()
    if cn is not None and cn >= NANOS:
        raise Unsupported("Duration::new with nanos >= 1e9")
    return _recombine(it, s, n, "Duration")


@model("<TaiTime as Add>::add")
def _time_add(it, cal, args):
    return time_add_dur(it, args[0], args[1])


def _cmp_pair(it, a, b):
    """structural (lt, eq) for values a, b of the same shape"""
    a = deref_all(it, a)
    b = deref_all(it, b)
    if isinstance(a, I) and isinstance(b, I):
        if a.c is not None and b.c is not None:
            return z3.BoolVal(a.concrete() < b.concrete()), z3.BoolVal(a.c == b.c)
        lt = (a.v < b.v) if a.signed else z3.ULT(a.v, b.v)
        return lt, a.v == b.v
    if isinstance(a, B) and isinstance(b, B):
        return z3.And(z3.Not(a.v), b.v), a.v == b.v
    if isinstance(a, CEnum) and isinstance(b, CEnum):
        return a.disc.v < b.disc.v, a.disc.v == b.disc.v
    if isinstance(a, Agg) and isinstance(b, Agg):
        if a.name == "TaiTime":
            return time_lt(a, b), time_eq(a, b)
        if a.name == "Duration":
            return dur_lt(a, b), a.fields[0].v == b.fields[0].v
        if a.variant is not None or b.variant is not None:
            if a.variant != b.variant:
                en = it.P.enums.get(a.name, {})
                return z3.BoolVal(en.get(a.variant, 0) < en.get(b.variant, 0)), z3.BoolVal(False)
        lt = z3.BoolVal(False)
        eq = z3.BoolVal(True)
        for x, y in zip(a.fields, b.fields):
            l1, e1 = _cmp_pair(it, x, y)
            lt = z3.Or(lt, z3.And(eq, l1))
            eq = z3.And(eq, e1)
        return lt, eq
    if isinstance(a, Ptr) and isinstance(b, Ptr):
        return z3.BoolVal(False), z3.BoolVal(a.same_loc(b))
    if isinstance(a, Opaque) and isinstance(b, Opaque):
        return z3.BoolVal(False), z3.BoolVal(a is b or (a.tag == b.tag and a.data == b.data))
    raise Unsupported(f"structural comparison of {a!r} and {b!r}")


STRUCT_CMP_TYPES = ["TaiTime", "Duration", "&Duration", "&&Duration", "tuple", "&tuple", "Option", "u64", "usize", "u32", "u8", "i64", "isize", "&usize",
                    "&u64", "bool", "&TaiTime", "cmp::Ordering", "Ordering", "Result"]


def _mk_cmp_models():
    for ty in STRUCT_CMP_TYPES:
        def eq(it, cal, args):
            return B(_cmp_pair(it, args[0], args[1])[1])

        def ne(it, cal, args):
            return B(z3.Not(_cmp_pair(it, args[0], args[1])[1]))

        def lt(it, cal, args):
            return B(_cmp_pair(it, args[0], args[1])[0])

        def le(it, cal, args):
            l, e = _cmp_pair(it, args[0], args[1])
            return B(z3.Or(l, e))

        def gt(it, cal, args):
            l, e = _cmp_pair(it, args[0], args[1])
            return B(z3.And(z3.Not(l), z3.Not(e)))

        def ge(it, cal, args):
            l, e = _cmp_pair(it, args[0], args[1])
            return B(z3.Not(l))

        def cmp(it, cal, args):
            l, e = _cmp_pair(it, args[0], args[1])
            return ord_from(l, e)

        def pcmp(it, cal, args):
            l, e = _cmp_pair(it, args[0], args[1])
            return some(ord_from(l, e))

        TABLE[f"<{ty} as PartialEq>::eq"] = eq
        TABLE[f"<{ty} as PartialEq>::ne"] = ne
        TABLE[f"<{ty} as PartialOrd>::lt"] = lt
        TABLE[f"<{ty} as PartialOrd>::le"] = le
        TABLE[f"<{ty} as PartialOrd>::gt"] = gt
        TABLE[f"<{ty} as PartialOrd>::ge"] = ge
        TABLE[f"<{ty} as PartialOrd>::partial_cmp"] = pcmp
        TABLE[f"<{ty} as Ord>::cmp"] = cmp


_mk_cmp_models()


@model("std::cmp::Ordering::then_with", "Ordering::then_with")
def _then_with(it, cal, args):
    o, clo = args
    if it.branch(o.disc.v == 0, "then_with"):
        return it.call_closure(clo, Agg("tuple", []))
    return o


@model("std::cmp::Ordering::reverse", "Ordering::reverse")
def _reverse(it, cal, args):
    return ordering(-args[0].disc.v)


@model("std::cmp::Ordering::then", "Ordering::then")
def _then(it, cal, args):
    a, b = args
    return ordering(z3.If(a.disc.v == 0, b.disc.v, a.disc.v))


@model("std::cmp::Ordering::is_lt", "Ordering::is_lt")
def _is_lt(it, cal, args):
    return B(args[0].disc.v == z3.BitVecVal(-1, 8))


@model("Duration::is_zero", "std::time::Duration::is_zero")
def _dur_is_zero(it, cal, args):
    d = deref_all(it, args[0])
    return B(d.fields[0].v == 0)


@model("<TaiTime as Clone>::clone", "<Duration as Clone>::clone")
def _clone_plain(it, cal, args):
    return clone_value(deref_all(it, args[0]))


# ----------------------------------------------------------------------------------------- Option / Result / misc combinators


@model("Option::unwrap", "Result::unwrap", "Option::expect", "Result::expect")
def _unwrap(it, cal, args):
    v = args[0]
    if v.variant in ("Some", "Ok"):
        return v.fields[0]
    raise RustPanic(f"called `{v.name}::unwrap()` on a `{v.variant}` value", cal.raw[:60])


@model("<Option as Default>::default")
def _opt_default(it, cal, args):
    return none()


@model("Option::unwrap_or_default")
def _opt_unwrap_or_default(it, cal, args):
    v = args[0]
    if v.variant == "Some":
        return v.fields[0]
    if "Vec<" in cal.raw or cal.raw.startswith("Option::<Vec"):
        return Agg("Vec", [])
    raise Unsupported(f"unwrap_or_default of None for {cal.raw}")


@model("Option::unwrap_or_else")
def _opt_unwrap_or_else(it, cal, args):
    v = args[0]
    return v.fields[0] if v.variant == "Some" else _callf(it, args[1], [])


@model("Option::is_some")
def _is_some(it, cal, args):
    return B(deref_all(it, args[0]).variant == "Some")


@model("Option::is_none")
def _is_none(it, cal, args):
    return B(deref_all(it, args[0]).variant == "None")


@model("Result::is_ok")
def _is_ok(it, cal, args):
    return B(deref_all(it, args[0]).variant == "Ok")


@model("Result::is_err")
def _is_err(it, cal, args):
    return B(deref_all(it, args[0]).variant == "Err")


@model("Option::map")
def _opt_map(it, cal, args):
    v, f = args
    if v.variant == "Some":
        return some(_callf(it, f, [v.fields[0]]))
    return v


@model("Result::map")
def _res_map(it, cal, args):
    v, f = args
    if v.variant == "Ok":
        return ok(_callf(it, f, [v.fields[0]]))
    return v


@model("Result::map_err")
def _res_map_err(it, cal, args):
    v, f = args
    if v.variant == "Err":
        return err(_callf(it, f, [v.fields[0]]))
    return v


@model("Option::take")
def _opt_take(it, cal, args):
    v = it.load(args[0])
    it.store(args[0], none())
    return v


@model("Option::as_ref", "Option::as_mut")
def _opt_as_ref(it, cal, args):
    p = it.deref(args[0])
    v = it.read_loc(p.cell, p.path)
    if v.variant == "Some":
        return some(Ptr(p.cell, p.path + (("f", 0),), "ref"))
    return none()


@model("Option::unwrap_or")
def _unwrap_or(it, cal, args):
    v, d = args
    return v.fields[0] if v.variant == "Some" else d


@model("Option::ok_or")
def _ok_or(it, cal, args):
    v, e = args
    return ok(v.fields[0]) if v.variant == "Some" else err(e)


def _callf(it, f, argl):
    if isinstance(f, FnItem):
        return it.call(f.name, argl)
    return it.call_closure(f, Agg("tuple", argl))


@model("<Result as Try>::branch")
def _res_branch(it, cal, args):
    v = args[0]
    if v.variant == "Ok":
        return Agg("ControlFlow", [v.fields[0]], variant="Continue")
    return Agg("ControlFlow", [Agg("Result", [v.fields[0]], variant="Err")], variant="Break")


@model("<Option as Try>::branch")
def _opt_branch(it, cal, args):
    v = args[0]
    if v.variant == "Some":
        return Agg("ControlFlow", [v.fields[0]], variant="Continue")
    return Agg("ControlFlow", [none()], variant="Break")


@model("<Result as FromResidual>::from_residual")
def _res_from_residual(it, cal, args):
    r = args[0]
    e = r.fields[0]
    # `From` conversion of the error type: identity unless the crate defines a From impl that is reached by name
    m = re.search(r"as FromResidual<Result<Infallible, (.*)>>>", cal.raw)
    tgt = re.match(r"<Result<.*, (.*)> as FromResidual", cal.raw)
    if m and tgt and base_type_name(m.group(1)) != base_type_name(tgt.group(1)):
        d = it.P.find_def(base_type_name(tgt.group(1)), "From", "from")
        if d:
            for name in d:
                fn = it.P.get_fn(name)
                if base_type_name(fn.params[0][1]) == base_type_name(m.group(1)):
                    return err(it.exec_fn(fn, [e]))
        raise Unsupported(f"from_residual conversion {cal.raw}")
    return err(e)


@model("<Option as FromResidual>::from_residual")
def _opt_from_residual(it, cal, args):
    return none()


@model("std::mem::drop", "drop", "std::mem::drop::<T>")
def _mem_drop(it, cal, args):
    it.drop_value(args[0])
    return unit()


@model("std::mem::forget")
def _mem_forget(it, cal, args):
    return unit()


@model("std::mem::replace")
def _mem_replace(it, cal, args):
    old = it.load(args[0])
    it.store(args[0], args[1])
    return old


@model("std::mem::swap")
def _mem_swap(it, cal, args):
    a, b = it.load(args[0]), it.load(args[1])
    it.store(args[0], b)
    it.store(args[1], a)
    return unit()


@model("std::mem::take")
def _mem_take(it, cal, args):
    old = it.load(args[0])
    if isinstance(old, Agg) and old.name == "Vec":
        it.store(args[0], Agg("Vec", []))
        return old
    if isinstance(old, Agg) and old.name == "Option":
        it.store(args[0], none())
        return old
    raise Unsupported(f"mem::take of {old!r}")


@model("std::hint::spin_loop", "spin_loop")
def _spin(it, cal, args):
    return unit()


# ----------------------------------------------------------------------------------------- pointers / smart pointers


@model("Box::new", "Box::pin")
def _box_new(it, cal, args):
    p = it.alloc(args[0], tag="box", kind="box")
    if cal.method == "pin":
        return Agg("Pin", [p])
    return p


@model("Box::into_pin", "Pin::new", "Pin::new_unchecked")
def _into_pin(it, cal, args):
    return Agg("Pin", [args[0]])


@model("Pin::get_unchecked_mut", "Pin::get_mut", "Pin::into_inner", "Pin::get_ref", "Pin::into_inner_unchecked")
def _pin_get(it, cal, args):
    return args[0].fields[0]


@model("Pin::as_mut", "Pin::as_ref")
def _pin_as_mut(it, cal, args):
    pin = it.load(args[0])
    inner = pin.fields[0]
    if isinstance(inner, Ptr) and inner.kind == "box":
        return Agg("Pin", [Ptr(inner.cell, inner.path, "ref")])
    return Agg("Pin", [inner])


@model("<Pin as Deref>::deref", "<Pin as DerefMut>::deref_mut")
def _pin_deref(it, cal, args):
    pin = it.load(args[0])
    inner = pin.fields[0]
    return Ptr(inner.cell, inner.path, "ref")


@model("<Box as Deref>::deref", "<Box as DerefMut>::deref_mut", "<Arc as Deref>::deref", "Arc::as_ptr", "<Box as AsRef>::as_ref",
       "<Box as AsMut>::as_mut", "<Arc as AsRef>::as_ref")
def _ptr_deref(it, cal, args):
    p = it.load(args[0])
    p = it.deref(p)
    return Ptr(p.cell, p.path, "ref")


@model("<Box as Drop>::drop")
def _box_dealloc(it, cal, args):
    # Box's own Drop impl only frees the allocation (the content is dropped by the drop glue / was moved out)
    return unit()


@model("Arc::new")
def _arc_new(it, cal, args):
    return it.alloc(args[0], tag="arc", kind="arc")


@model("<Arc as Clone>::clone")
def _arc_clone(it, cal, args):
    p = it.load(args[0])
    return Ptr(p.cell, p.path, "arc")


@model("Arc::ptr_eq", "std::ptr::eq", "ptr::eq")
def _ptr_eq(it, cal, args):
    a, b = args
    if cal.method == "ptr_eq":
        a, b = it.load(a), it.load(b)
    return B(a.same_loc(b))


@model("CachePadded::new", "ManuallyDrop::new", "UnsafeCell::new", "MaybeUninit::new", "Cell::new")
def _wrap_new(it, cal, args):
    return Agg(base_type_name(cal.segs[-2]) if len(cal.segs) >= 2 else "Wrap", [args[0]])


@model("<CachePadded as Deref>::deref", "<CachePadded as DerefMut>::deref_mut", "<ManuallyDrop as Deref>::deref",
       "<ManuallyDrop as DerefMut>::deref_mut", "UnsafeCell::get", "MaybeUninit::as_ptr", "MaybeUninit::as_mut_ptr", "Cell::as_ptr")
def _wrap_deref(it, cal, args):
    p = it.deref(args[0])
    return Ptr(p.cell, p.path + (("f", 0),), "ref")


# ----------------------------------------------------------------------------------------- Mutex


@model("Mutex::new", "std::sync::Mutex::new")
def _mutex_new(it, cal, args):
    return Agg("Mutex", [args[0], B(False)])


@model("Mutex::lock", "std::sync::Mutex::lock")
def _mutex_lock(it, cal, args):
    p = it.deref(args[0])
    m = it.read_loc(p.cell, p.path)
    if m.fields[1].concrete():
        raise RustPanic("deadlock: Mutex locked twice by the same (only) thread", "Mutex::lock")
    m.fields[1] = B(True)
    it.event("lock", id(p.cell))
    guard = Agg("MutexGuard", [Ptr(p.cell, p.path + (("f", 0),), "ref"), Ptr(p.cell, p.path, "ref")])
    return ok(guard)


@model("<MutexGuard as Deref>::deref", "<MutexGuard as DerefMut>::deref_mut")
def _guard_deref(it, cal, args):
    g = it.load(args[0])
    return g.fields[0]


# ----------------------------------------------------------------------------------------- atomics (sequential semantics; E3 overrides)


def _atomic_val_ptr(it, a):
    p = it.deref(a)
    return p


@model("Atomic::new", "AtomicBool::new", "AtomicUsize::new", "AtomicU64::new", "AtomicI64::new", "AtomicU32::new", "AtomicIsize::new")
def _atomic_new(it, cal, args):
    return Agg("Atomic", [args[0]])


@model("Atomic::load")
def _atomic_load(it, cal, args):
    a = it.load(args[0])
    it.models.atomic_event(it, "load", args[0], args[1], None)
    return clone_value(a.fields[0])


@model("Atomic::store")
def _atomic_store(it, cal, args):
    a = it.load(args[0])
    a.fields[0] = args[1]
    it.models.atomic_event(it, "store", args[0], args[2], args[1])
    return unit()


@model("Atomic::swap")
def _atomic_swap(it, cal, args):
    a = it.load(args[0])
    old = a.fields[0]
    a.fields[0] = args[1]
    return old


@model("Atomic::fetch_add", "Atomic::fetch_sub", "Atomic::fetch_or", "Atomic::fetch_and", "Atomic::fetch_xor")
def _atomic_rmw(it, cal, args):
    a = it.load(args[0])
    old = a.fields[0]
    op = {"fetch_add": "Add", "fetch_sub": "Sub", "fetch_or": "BitOr", "fetch_and": "BitAnd", "fetch_xor": "BitXor"}[cal.method]
    a.fields[0] = it.binop(op, old, args[1])
    return old


@model("Atomic::compare_exchange", "Atomic::compare_exchange_weak")
def _atomic_cas(it, cal, args):
    a = it.load(args[0])
    old = a.fields[0]
    eq = it.binop("Eq", old, args[1])
    if it.branch(eq.v, "cas"):
        a.fields[0] = args[2]
        return ok(old)
    return err(old)


@model("fence", "std::sync::atomic::fence", "compiler_fence")
def _fence(it, cal, args):
    it.models.atomic_event(it, "fence", None, args[0], None)
    return unit()


@model("Atomic::get_mut", "Atomic::as_ptr")
def _atomic_get_mut(it, cal, args):
    p = it.deref(args[0])
    return Ptr(p.cell, p.path + (("f", 0),), "ref")


@model("Atomic::into_inner")
def _atomic_into_inner(it, cal, args):
    return args[0].fields[0]


# ----------------------------------------------------------------------------------------- integer helpers


def _int_models():
    for ty in INT_TYPES:
        pre = f"core::num::<impl {ty}>::"

        def wadd(it, cal, args):
            return it.binop("Add", args[0], args[1])

        def wsub(it, cal, args):
            return it.binop("Sub", args[0], args[1])

        def wmul(it, cal, args):
            return it.binop("Mul", args[0], args[1])

        def cadd(it, cal, args):
            r = it.binop("AddWithOverflow", args[0], args[1])
            if it.branch(r.fields[1].v, "checked_add"):
                return none()
            return some(r.fields[0])

        def csub(it, cal, args):
            r = it.binop("SubWithOverflow", args[0], args[1])
            if it.branch(r.fields[1].v, "checked_sub"):
                return none()
            return some(r.fields[0])

        def npot(it, cal, args):
            c = args[0].concrete()
            if c is None:
                raise Unsupported("next_power_of_two of symbolic value")
            p = 1
            while p < c:
                p <<= 1
            return I(p, args[0].ty)

        def tz(it, cal, args, ones=False):
            c = args[0].concrete()
            w = args[0].width
            if c is None:
                # symbolic: nested if-then-else over the bit positions
                x = args[0].v
                r = z3.BitVecVal(w, 32)
                for n in range(w - 1, -1, -1):
                    bit = z3.Extract(n, n, x) == (0 if ones else 1)
                    r = z3.If(bit, z3.BitVecVal(n, 32), r)
                return I(r, "u32")
            c &= (1 << w) - 1
            if ones:
                c = ~c & ((1 << w) - 1)
            n = 0
            while n < w and not (c >> n) & 1:
                n += 1
            return I(n, "u32")

        def to(it, cal, args):
            return tz(it, cal, args, ones=True)

        def lz(it, cal, args):
            c = args[0].concrete()
            if c is None:
                raise Unsupported("leading_zeros of symbolic value")
            w = args[0].width
            c &= (1 << w) - 1
            n = 0
            while n < w and not (c >> (w - 1 - n)) & 1:
                n += 1
            return I(n, "u32")

        def ipot(it, cal, args):
            x = args[0].v
            return B(z3.And(x != 0, (x & (x - 1)) == 0))

        def imin(it, cal, args):
            a, b = args
            lt = (a.v < b.v) if a.signed else z3.ULT(a.v, b.v)
            return I(z3.If(lt, a.v, b.v), a.ty)

        def imax(it, cal, args):
            a, b = args
            lt = (a.v < b.v) if a.signed else z3.ULT(a.v, b.v)
            return I(z3.If(lt, b.v, a.v), a.ty)

        def sat_sub(it, cal, args):
            a, b = args
            if a.signed:
                raise Unsupported("saturating_sub signed")
            return I(z3.If(z3.ULT(a.v, b.v), z3.BitVecVal(0, a.width), a.v - b.v), a.ty)

        TABLE[pre + "wrapping_add"] = wadd
        TABLE[pre + "wrapping_sub"] = wsub
        TABLE[pre + "wrapping_mul"] = wmul
        TABLE[pre + "checked_add"] = cadd
        TABLE[pre + "checked_sub"] = csub
        TABLE[pre + "next_power_of_two"] = npot
        TABLE[pre + "trailing_zeros"] = tz
        TABLE[pre + "trailing_ones"] = to
        TABLE[pre + "leading_zeros"] = lz
        TABLE[pre + "is_power_of_two"] = ipot
        TABLE[pre + "saturating_sub"] = sat_sub
        TABLE[f"<{ty} as Ord>::clamp"] = lambda it, cal, args: imin(it, cal, [imax(it, cal, [args[0], args[1]]), args[2]])
        TABLE[f"<{ty} as Ord>::min"] = imin
        TABLE[f"<{ty} as Ord>::max"] = imax
        TABLE[f"std::cmp::min::<{ty}>"] = imin
        TABLE[f"<{ty} as Clone>::clone"] = lambda it, cal, args: it.load(args[0])
        TABLE[f"<{ty} as From>::from"] = lambda it, cal, args: args[0]

        def tryfrom(it, cal, args, ty=ty):
            # checked integer conversion: Ok iff the value is representable in the target type
            v = args[0]
            w, sg = INT_TYPES[ty]
            lo, hi = (-(1 << (w - 1)), (1 << (w - 1)) - 1) if sg else (0, (1 << w) - 1)
            c = v.concrete()
            if c is not None:
                fits = lo <= c <= hi
            else:
                big = max(v.width, w) + 1
                x = z3.SignExt(big - v.width, v.v) if v.signed else z3.ZeroExt(big - v.width, v.v)
                fits = it.branch(z3.And(x >= lo, x <= hi), "try_from")
            if fits:
                return ok(I(c, ty) if c is not None else I(z3.Extract(w - 1, 0, v.v) if w < v.width else
                                                          (z3.SignExt(w - v.width, v.v) if v.signed else z3.ZeroExt(w - v.width, v.v)) if w > v.width else v.v, ty))
            return err(Agg("TryFromIntError", [unit()]))
        TABLE[f"<{ty} as TryFrom>::try_from"] = tryfrom


_int_models()


@model("std::cmp::min", "std::cmp::max", "min", "max")
def _minmax(it, cal, args):
    a, b = args
    if isinstance(a, I):
        lt = (a.v < b.v) if a.signed else z3.ULT(a.v, b.v)
        if cal.method == "min":
            return I(z3.If(lt, a.v, b.v), a.ty)
        return I(z3.If(lt, b.v, a.v), a.ty)
    raise Unsupported("min/max on non-int")


# ----------------------------------------------------------------------------------------- Vec / slices / String (concrete shape)


@model("Vec::new", "Vec::with_capacity")
def _vec_new(it, cal, args):
    return Agg("Vec", [])


@model("Vec::push")
def _vec_push(it, cal, args):
    v = it.load(args[0])
    v.fields.append(args[1])
    return unit()


@model("Vec::pop")
def _vec_pop(it, cal, args):
    v = it.load(args[0])
    if v.fields:
        return some(v.fields.pop())
    return none()


@model("Vec::len", "core::slice::<impl [T]>::len", "slice::len")
def _vec_len(it, cal, args):
    return I(len(it.load(args[0]).fields), "usize")


@model("Vec::is_empty", "core::slice::<impl [T]>::is_empty")
def _vec_is_empty(it, cal, args):
    return B(len(it.load(args[0]).fields) == 0)


@model("Vec::clear")
def _vec_clear(it, cal, args):
    v = it.load(args[0])
    for x in v.fields:
        it.drop_value(x)
    del v.fields[:]
    return unit()


@model("<Vec as Index>::index", "<Vec as IndexMut>::index_mut", "<slice as Index>::index", "<slice as IndexMut>::index_mut",
       "<Box as Index>::index", "<Box as IndexMut>::index_mut")
def _vec_index(it, cal, args):
    p = it.deref(args[0])
    v = it.read_loc(p.cell, p.path)
    if isinstance(v, Ptr):  # Box<[T]>
        p = v
        v = it.read_loc(p.cell, p.path)
    n = it.concretize(args[1], "vec index")
    if not 0 <= n < len(v.fields):
        raise RustPanic(f"index out of bounds: the len is {len(v.fields)} but the index is {n}", "Vec::index")
    return Ptr(p.cell, p.path + (("i", n),), "ref")


@model("core::slice::<impl [T]>::get", "core::slice::<impl [T]>::get_mut", "Vec::get", "Vec::get_mut")
def _slice_get(it, cal, args):
    p = it.deref(args[0])
    v = it.read_loc(p.cell, p.path)
    n = it.concretize(args[1], "slice get")
    if 0 <= n < len(v.fields):
        return some(Ptr(p.cell, p.path + (("i", n),), "ref"))
    return none()


@model("core::slice::<impl [T]>::first", "core::slice::<impl [T]>::first_mut")
def _slice_first(it, cal, args):
    p = it.deref(args[0])
    v = it.read_loc(p.cell, p.path)
    if v.fields:
        return some(Ptr(p.cell, p.path + (("i", 0),), "ref"))
    return none()


@model("core::slice::<impl [T]>::last", "core::slice::<impl [T]>::last_mut")
def _slice_last(it, cal, args):
    p = it.deref(args[0])
    v = it.read_loc(p.cell, p.path)
    if v.fields:
        return some(Ptr(p.cell, p.path + (("i", len(v.fields) - 1),), "ref"))
    return none()


@model("core::slice::<impl [T]>::swap")
def _slice_swap(it, cal, args):
    v = it.load(args[0])
    a = it.concretize(args[1], "swap a")
    b = it.concretize(args[2], "swap b")
    v.fields[a], v.fields[b] = v.fields[b], v.fields[a]
    return unit()


@model("<Vec as Deref>::deref", "<Vec as DerefMut>::deref_mut", "Vec::as_slice", "Vec::as_mut_slice", "<Vec as AsRef>::as_ref")
def _vec_deref(it, cal, args):
    p = it.deref(args[0])
    return Ptr(p.cell, p.path, "ref")


@model("Vec::into_boxed_slice")
def _vec_into_boxed(it, cal, args):
    v = args[0]
    return it.alloc(Agg("array", v.fields), tag="boxslice", kind="box")


@model("<Vec as Clone>::clone")
def _vec_clone(it, cal, args):
    v = it.load(args[0])
    out = []
    for x in v.fields:
        holder = Cell(x, tag="cl")
        out.append(it.call("<T as Clone>::clone", [Ptr(holder, (), "ref")]))
    return Agg("Vec", out)


@model("Vec::resize_with")
def _vec_resize_with(it, cal, args):
    v = it.load(args[0])
    n = it.concretize(args[1], "resize_with len")
    while len(v.fields) > n:
        it.drop_value(v.fields.pop())
    while len(v.fields) < n:
        v.fields.append(_callf(it, args[2], []))
    return unit()


@model("Vec::try_reserve", "Vec::reserve", "Vec::shrink_to_fit")
def _vec_try_reserve(it, cal, args):
    return ok(unit()) if cal.method == "try_reserve" else unit()


@model("Vec::capacity")
def _vec_capacity(it, cal, args):
    return I(max(len(it.load(args[0]).fields), 4), "usize")


@model("<String as Clone>::clone")
def _string_clone(it, cal, args):
    return it.load(args[0])


@model("String::is_empty")
def _string_is_empty(it, cal, args):
    s = it.load(args[0])
    return B(s.data.get("s", "") == "")


@model("String::new")
def _string_new(it, cal, args):
    return Opaque("String", s="")


@model("<String as From>::from", "<str as ToString>::to_string", "<str as ToOwned>::to_owned", "String::from",
       "<&str as Into>::into", "alloc::string::String::from", "str::to_string", "<str>::to_string")
def _string_from(it, cal, args):
    a = deref_all(it, args[0])
    if isinstance(a, Opaque) and a.tag in ("str", "String"):
        s = a.data["s"]
        if a.tag == "str":
            s = s[1:-1] if s.startswith('"') else s
        return Opaque("String", s=s)
    raise Unsupported(f"String::from {a!r}")


@model("<String as Deref>::deref", "String::as_str")
def _string_deref(it, cal, args):
    return args[0]


# ----------------------------------------------------------------------------------------- iterators over Vec/slices (concrete length)


@model("<&Vec as IntoIterator>::into_iter", "core::slice::<impl [T]>::iter", "<&mut Vec as IntoIterator>::into_iter",
       "core::slice::<impl [T]>::iter_mut", "<&slice as IntoIterator>::into_iter", "<&mut slice as IntoIterator>::into_iter")
def _iter_ref(it, cal, args):
    p = it.deref(args[0])
    v = it.read_loc(p.cell, p.path)
    if isinstance(v, Ptr):
        p = v
    return Agg("SliceIter", [p, I(0, "usize")])


@model("<Iter as Iterator>::next", "<IterMut as Iterator>::next", "<SliceIter as Iterator>::next")
def _iter_next(it, cal, args):
    itp = it.deref(args[0])
    s = it.read_loc(itp.cell, itp.path)
    base = s.fields[0]
    v = it.read_loc(base.cell, base.path)
    i = s.fields[1].concrete()
    if i < len(v.fields):
        s.fields[1] = I(i + 1, "usize")
        return some(Ptr(base.cell, base.path + (("i", i),), "ref"))
    return none()


@model("<Vec as IntoIterator>::into_iter")
def _vec_into_iter(it, cal, args):
    return Agg("VecIntoIter", [Agg("Vec", list(args[0].fields)), I(0, "usize")])


@model("<VecIntoIter as Iterator>::next", "<IntoIter as Iterator>::next")
def _vec_into_iter_next(it, cal, args):
    s = it.load(args[0])
    i = s.fields[1].concrete()
    v = s.fields[0]
    if i < len(v.fields):
        s.fields[1] = I(i + 1, "usize")
        return some(v.fields[i])
    return none()


@model("<Range as Iterator>::next")
def _range_next(it, cal, args):
    r = it.load(args[0])
    lo, hi = r.fields
    if it.branch(it.binop("Lt", lo, hi).v, "range"):
        r.fields[0] = it.binop("Add", lo, I(1, lo.ty))
        return some(lo)
    return none()


@model("<Range as IntoIterator>::into_iter", "<SliceIter as IntoIterator>::into_iter", "<VecIntoIter as IntoIterator>::into_iter",
       "<MapIter as IntoIterator>::into_iter", "<TakeIter as IntoIterator>::into_iter")
def _ident_iter(it, cal, args):
    return args[0]


# lazy adaptors (std's Map / Take): the inner iterator is advanced through the dispatcher, so any modelled iterator works
@model("<VecIntoIter as Iterator>::map", "<IntoIter as Iterator>::map", "<SliceIter as Iterator>::map", "<IterMut as Iterator>::map",
       "<Iter as Iterator>::map", "<TakeIter as Iterator>::map", "<Take as Iterator>::map", "<MapIter as Iterator>::map")
def _iter_map(it, cal, args):
    return Agg("MapIter", [args[0], args[1]])


@model("<VecIntoIter as Iterator>::take", "<IntoIter as Iterator>::take", "<SliceIter as Iterator>::take", "<IterMut as Iterator>::take",
       "<Iter as Iterator>::take", "<MapIter as Iterator>::take")
def _iter_take(it, cal, args):
    return Agg("TakeIter", [args[0], args[1]])


@model("<MapIter as Iterator>::next", "<Map as Iterator>::next")
def _map_next(it, cal, args):
    p = it.deref(args[0])
    r = it.call("<I as Iterator>::next", [Ptr(p.cell, p.path + (("f", 0),), "ref")])
    if r.variant != "Some":
        return none()
    return some(it.call_closure(Ptr(p.cell, p.path + (("f", 1),), "ref"), Agg("tuple", [r.fields[0]])))


@model("<TakeIter as Iterator>::next", "<Take as Iterator>::next")
def _take_next(it, cal, args):
    p = it.deref(args[0])
    s = it.read_loc(p.cell, p.path)
    n = it.concretize(s.fields[1], "take count")
    if n <= 0:
        return none()
    s.fields[1] = I(n - 1, "usize")
    return it.call("<I as Iterator>::next", [Ptr(p.cell, p.path + (("f", 0),), "ref")])


@model("<MapIter as Iterator>::collect", "<Map as Iterator>::collect", "<VecIntoIter as Iterator>::collect", "<TakeIter as Iterator>::collect")
def _iter_collect(it, cal, args):
    if "Vec<" not in cal.raw and "::<Vec" not in cal.raw:
        raise Unsupported(f"collect into a non-Vec: {cal.raw}")
    holder = Cell(args[0], tag="collect")
    out = []
    for _ in range(256):
        r = it.call("<I as Iterator>::next", [Ptr(holder, (), "ref")])
        if r.variant != "Some":
            return Agg("Vec", out)
        out.append(r.fields[0])
    raise Unsupported("collect: more than 256 items")


def _iter_remaining(it, s):
    if s.name == "VecIntoIter":
        return len(s.fields[0].fields) - s.fields[1].concrete()
    if s.name == "SliceIter":
        base = s.fields[0]
        return len(it.read_loc(base.cell, base.path).fields) - s.fields[1].concrete()
    if s.name == "TakeIter":
        return min(it.concretize(s.fields[1], "take count"), _iter_remaining(it, s.fields[0]))
    if s.name == "MapIter":
        return _iter_remaining(it, s.fields[0])
    raise Unsupported(f"length of iterator {s.name}")


@model("<VecIntoIter as ExactSizeIterator>::len", "<IntoIter as ExactSizeIterator>::len", "<SliceIter as ExactSizeIterator>::len",
       "<IterMut as ExactSizeIterator>::len", "<Iter as ExactSizeIterator>::len")
def _iter_len(it, cal, args):
    return I(_iter_remaining(it, it.load(args[0])), "usize")


# ----------------------------------------------------------------------------------------- BinaryHeap (specification: a max-heap w.r.t. PartialOrd of the element)


@model("BinaryHeap::new", "BinaryHeap::with_capacity")
def _bh_new(it, cal, args):
    return Agg("BinaryHeap", [])


@model("BinaryHeap::push")
def _bh_push(it, cal, args):
    h = it.load(args[0])
    h.fields.append(args[1])
    return unit()


def _bh_max_index(it, h):
    """Index of a maximal element according to the element type's own `partial_cmp` (interpreted from the MIR).
    If two distinct elements compare Equal the heap's choice is unspecified: both are explored."""
    if not h.fields:
        return None
    best = 0
    for i in range(1, len(h.fields)):
        a = Ptr(Cell(h.fields[best], tag="bh_a"), (), "ref")
        b = Ptr(Cell(h.fields[i], tag="bh_b"), (), "ref")
        r = it.call("<T as PartialOrd>::partial_cmp", [a, b])
        if r.variant != "Some":
            raise Unsupported("BinaryHeap element partial_cmp returned None")
        o = r.fields[0]
        if it.branch(o.disc.v == z3.BitVecVal(-1, 8), "heap-less"):
            best = i
        elif it.branch(o.disc.v == 0, "heap-equal"):
            it.event("heap-tie", best, i)
            if it.choose(2, "heap-tie") == 1:
                best = i
    return best


@model("BinaryHeap::pop")
def _bh_pop(it, cal, args):
    h = it.load(args[0])
    i = _bh_max_index(it, h)
    if i is None:
        return none()
    return some(h.fields.pop(i))


@model("BinaryHeap::peek")
def _bh_peek(it, cal, args):
    p = it.deref(args[0])
    h = it.read_loc(p.cell, p.path)
    i = _bh_max_index(it, h)
    if i is None:
        return none()
    return some(Ptr(p.cell, p.path + (("i", i),), "ref"))


@model("BinaryHeap::len")
def _bh_len(it, cal, args):
    return I(len(it.load(args[0]).fields), "usize")


@model("BinaryHeap::is_empty")
def _bh_is_empty(it, cal, args):
    return B(len(it.load(args[0]).fields) == 0)


# ----------------------------------------------------------------------------------------- VecDeque (concrete shape)


@model("VecDeque::new")
def _vd_new(it, cal, args):
    return Agg("VecDeque", [])


@model("VecDeque::with_capacity")
def _vd_with_capacity(it, cal, args):
    return Agg("VecDeque", [], meta={"requested": args[0]})


@model("VecDeque::capacity")
def _vd_capacity(it, cal, args):
    # std only promises capacity() >= max(len, requested capacity) (usize::MAX for zero-sized elements): symbolic
    d = it.load(args[0])
    c = it.fresh("vdcap", "usize")
    it.assume(z3.UGE(c.v, len(d.fields)))
    req = d.meta.get("requested") if isinstance(d.meta, dict) else None
    if req is not None:
        it.assume(z3.UGE(c.v, req.v))
    return c


@model("VecDeque::len")
def _vd_len(it, cal, args):
    return I(len(it.load(args[0]).fields), "usize")


@model("VecDeque::is_empty")
def _vd_is_empty(it, cal, args):
    return B(len(it.load(args[0]).fields) == 0)


@model("VecDeque::push_back")
def _vd_push_back(it, cal, args):
    it.load(args[0]).fields.append(args[1])
    return unit()


@model("VecDeque::push_front")
def _vd_push_front(it, cal, args):
    it.load(args[0]).fields.insert(0, args[1])
    return unit()


@model("VecDeque::pop_front")
def _vd_pop_front(it, cal, args):
    d = it.load(args[0])
    return some(d.fields.pop(0)) if d.fields else none()


@model("VecDeque::pop_back")
def _vd_pop_back(it, cal, args):
    d = it.load(args[0])
    return some(d.fields.pop()) if d.fields else none()


@model("VecDeque::clear")
def _vd_clear(it, cal, args):
    d = it.load(args[0])
    for x in d.fields:
        it.drop_value(x)
    del d.fields[:]
    return unit()


@model("VecDeque::truncate")
def _vd_truncate(it, cal, args):
    d = it.load(args[0])
    if it.branch(z3.UGE(args[1].v, len(d.fields)), "truncate-noop"):
        return unit()
    n = it.concretize(args[1], "truncate", limit=len(d.fields) + 1)
    del d.fields[n:]
    return unit()


@model("VecDeque::front", "VecDeque::front_mut")
def _vd_front(it, cal, args):
    p = it.deref(args[0])
    d = it.read_loc(p.cell, p.path)
    return some(Ptr(p.cell, p.path + (("i", 0),), "ref")) if d.fields else none()


@model("VecDeque::back", "VecDeque::back_mut")
def _vd_back(it, cal, args):
    p = it.deref(args[0])
    d = it.read_loc(p.cell, p.path)
    return some(Ptr(p.cell, p.path + (("i", len(d.fields) - 1),), "ref")) if d.fields else none()


@model("VecDeque::get", "VecDeque::get_mut")
def _vd_get(it, cal, args):
    p = it.deref(args[0])
    d = it.read_loc(p.cell, p.path)
    n = it.concretize(args[1], "get", limit=32)
    return some(Ptr(p.cell, p.path + (("i", n),), "ref")) if 0 <= n < len(d.fields) else none()


@model("<VecDeque as Index>::index", "<VecDeque as IndexMut>::index_mut")
def _vd_index(it, cal, args):
    p = it.deref(args[0])
    d = it.read_loc(p.cell, p.path)
    n = it.concretize(args[1], "index", limit=32)
    if not 0 <= n < len(d.fields):
        raise RustPanic(f"index out of bounds: the len is {len(d.fields)} but the index is {n}", "VecDeque::index")
    return Ptr(p.cell, p.path + (("i", n),), "ref")


@model("VecDeque::remove")
def _vd_remove(it, cal, args):
    d = it.load(args[0])
    n = it.concretize(args[1], "remove", limit=32)
    return some(d.fields.pop(n)) if 0 <= n < len(d.fields) else none()


@model("VecDeque::insert")
def _vd_insert(it, cal, args):
    d = it.load(args[0])
    n = it.concretize(args[1], "insert", limit=32)
    d.fields.insert(n, args[2])
    return unit()


@model("core::bool::<impl bool>::then_some", "bool::then_some")
def _then_some(it, cal, args):
    if it.branch(args[0], "then_some"):
        return some(args[1])
    return none()


@model("Option::replace")
def _opt_replace(it, cal, args):
    old = it.load(args[0])
    it.store(args[0], some(args[1]))
    return old


@model("Option::insert")
def _opt_insert(it, cal, args):
    it.store(args[0], some(args[1]))
    p = it.deref(args[0])
    return Ptr(p.cell, p.path + (("f", 0),), "ref")


@model("Option::get_or_insert")
def _opt_get_or_insert(it, cal, args):
    old = it.load(args[0])
    if old.variant != "Some":
        it.store(args[0], some(args[1]))
    p = it.deref(args[0])
    return Ptr(p.cell, p.path + (("f", 0),), "ref")


@model("Option::get_or_insert_with")
def _opt_get_or_insert_with(it, cal, args):
    old = it.load(args[0])
    if old.variant != "Some":
        it.store(args[0], some(it.call_closure(args[1], Agg("tuple", []))))
    p = it.deref(args[0])
    return Ptr(p.cell, p.path + (("f", 0),), "ref")


def _vec_index_arg(it, v, idx, what, upto):
    """concrete index of a Vec operation (panics as std does when out of range)"""
    n = it.concretize(idx, what, limit=len(v.fields) + 2)
    if n >= upto:
        raise RustPanic(f"{what} index (is {n}) should be < len (is {len(v.fields)})", what)
    return n


@model("Vec::swap_remove")
def _vec_swap_remove(it, cal, args):
    v = it.load(args[0])
    n = _vec_index_arg(it, v, args[1], "Vec::swap_remove", len(v.fields))
    last = v.fields.pop()
    if n == len(v.fields):
        return last
    out = v.fields[n]
    v.fields[n] = last
    return out


@model("Vec::remove")
def _vec_remove(it, cal, args):
    v = it.load(args[0])
    n = _vec_index_arg(it, v, args[1], "Vec::remove", len(v.fields))
    return v.fields.pop(n)


@model("Vec::insert")
def _vec_insert(it, cal, args):
    v = it.load(args[0])
    n = _vec_index_arg(it, v, args[1], "Vec::insert", len(v.fields) + 1)
    v.fields.insert(n, args[2])
    return unit()


@model("Vec::truncate")
def _vec_truncate(it, cal, args):
    v = it.load(args[0])
    if it.branch(z3.UGE(args[1].v, len(v.fields)), "truncate-noop"):
        return unit()
    n = it.concretize(args[1], "truncate", limit=len(v.fields) + 1)
    del v.fields[n:]
    return unit()


# ----------------------------------------------------------------------------------------- panics


@model("core::panicking::panic", "core::panicking::panic_fmt", "std::rt::begin_panic", "core::panicking::assert_failed",
       "core::panicking::panic_explicit", "std::rt::panic_fmt", "core::panicking::panic_const::panic_const_add_overflow",
       "assert_failed", "core::panicking::unreachable_display", "core::option::unwrap_failed", "core::result::unwrap_failed",
       "core::option::expect_failed", "panic_fmt", "begin_panic", "panic", "panic_cold_explicit", "core::panicking::panic_cold_explicit")
def _panic(it, cal, args):
    msg = ""
    for a in args:
        if isinstance(a, Opaque) and a.tag == "str":
            msg = a.data["s"]
    raise RustPanic(msg or cal.raw[:80], cal.raw[:60])


@model("Arguments::new_const", "core::fmt::Arguments::new_const", "Arguments::new_v1", "core::fmt::rt::Argument::new_display",
       "core::fmt::rt::Argument::new_debug", "Arguments::from_str", "core::fmt::Arguments::from_str")
def _fmt_args(it, cal, args):
    for a in args:
        a = deref_all(it, a)
        if isinstance(a, Opaque) and a.tag == "str":
            return a
        if isinstance(a, Agg) and a.fields and isinstance(a.fields[0], Opaque):
            return a.fields[0]
    return Opaque("str", s="<fmt>")


# ----------------------------------------------------------------------------------------- model registry object


class Models:
    """Per-path model registry: the static TABLE plus scenario-specific handlers."""

    def __init__(self, extra=None, consts=None):
        self.extra = dict(extra or {})
        self.consts = dict(consts or {})
        self.closure_handlers = []
        self.opaque_drop = None
        self.agg_drop = {}
        self.atomic_hook = None

    def lookup(self, name):
        h = self.extra.get(name)
        if h:
            return h
        return TABLE.get(name)

    def const(self, it, text):
        t = text.strip()
        if t in self.consts:
            return self.consts[t](it)
        m = re.fullmatch(r"(?:tai_time::)?TaiTime::<0>::(MAX|MIN|EPOCH)", t)
        if m:
            if m.group(1) == "MAX":
                return mk_time(T_MAX)
            if m.group(1) == "MIN":
                return mk_time(T_MIN)
            return mk_time(0)
        m = re.fullmatch(r"(?:std::time::|core::time::)?Duration::(ZERO|MAX)", t)
        if m:
            return mk_dur(0) if m.group(1) == "ZERO" else mk_dur(D_MAX)
        m = re.fullmatch(r"(?:core::num::<impl )?(\w+)(?:>)?::(MAX|MIN)", t)
        if m and m.group(1) in INT_TYPES:
            w, sg = INT_TYPES[m.group(1)]
            if m.group(2) == "MAX":
                return I((1 << (w - 1)) - 1 if sg else (1 << w) - 1, m.group(1))
            return I(-(1 << (w - 1)) if sg else 0, m.group(1))
        m = re.fullmatch(r"(?:core::num::<impl )?(\w+)(?:>)?::BITS", t)
        if m and m.group(1) in INT_TYPES:
            return I(INT_TYPES[m.group(1)][0], "u32")
        m = re.fullmatch(r"ZeroSized: (.*)", t)
        if m:
            ty = m.group(1)
            if ty.startswith("{closure@"):
                return Agg(ty, [])
            return Agg(base_type_name(ty), [])
        return None

    def lookup_closure(self, it, env):
        for pred, h in self.closure_handlers:
            if pred(env):
                return h
        return None

    def drop_opaque(self, it, v):
        if self.opaque_drop:
            self.opaque_drop(it, v)

    def drop_arc(self, it, v):
        pass

    def drop_agg(self, it, v):
        if v.name == "MutexGuard":
            m = it.read_loc(v.fields[1].cell, v.fields[1].path)
            m.fields[1] = B(False)
            it.event("unlock", id(v.fields[1].cell))
            return True
        h = self.agg_drop.get(v.name)
        if h:
            return h(it, v)
        return False

    def atomic_event(self, it, kind, loc, ordering, val):
        if self.atomic_hook:
            self.atomic_hook(it, kind, loc, ordering, val)
