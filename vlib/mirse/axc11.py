"""E3 — AXC11: axiomatic C11 (release/acquire fragment, RC11-style) over the atomic events that MIRSE emits.

Each thread of a small client program is executed symbolically *in isolation* by MIRSE on the real MIR: every atomic
load returns a fresh symbolic value and is recorded as an event together with stores, RMWs, fences and non-atomic cell
accesses; branches on loaded values fork the thread's path.  For every combination of thread paths the solver is asked
for an execution (reads-from, modification order) that satisfies the C11 consistency axioms and the path conditions and
violates the property.  unsat for all combinations = no C11-consistent execution within the client program breaks it.

Model (no SeqCst; an event with SeqCst ordering makes the run inconclusive):
  rf      every read reads from exactly one write of the same location with the same value
  mo      per location a strict total order on writes, the initialisation first
  rmw     a read-modify-write reads from its immediate mo-predecessor
  rs      release sequence of w: w followed by RMWs reading (transitively) from it
  sw      release store | release fence ; later store   -> (rs) -> rf ->   acquire load | load ; later acquire fence
  hb      (po U sw)^+   (exact, by repeated squaring of the boolean matrix)
  coh     CoRR, CoRW, CoWR, CoWW and 'no read from an hb-later write';  acyclic(po U rf)
  race    two conflicting non-atomic accesses of different threads unordered by hb  (reported as a violation kind)
"""
import itertools
import math
import time

import z3

from .interp import Explorer, Unsupported
from .models import Models, deref_all, ok as m_ok, err as m_err
from .values import Agg, B, Cell, I, Ptr, unit

REL = {"Release", "AcqRel"}
ACQ = {"Acquire", "AcqRel"}


class Ev:
    __slots__ = ("tid", "idx", "kind", "loc", "order", "rval", "wval", "uid", "label")

    def __init__(self, tid, idx, kind, loc, order, rval=None, wval=None, label=""):
        self.tid, self.idx, self.kind, self.loc, self.order, self.rval, self.wval, self.label = tid, idx, kind, loc, order, rval, wval, label
        self.uid = None

    def is_read(self):
        # NR / NW: non-atomic accesses (order "NA"): they take part in rf / coherence like relaxed accesses - on a
        # race-free execution a non-atomic read returns the hb-latest write - and are checked for races separately
        return self.kind in ("R", "U", "NR")

    def is_write(self):
        return self.kind in ("W", "U", "NW")

    def __repr__(self):
        return f"T{self.tid}.{self.idx}:{self.kind}{'' if self.loc is None else '[' + str(self.loc) + ']'}{self.order or ''}{(' ' + self.label) if self.label else ''}"


def _ty(v):
    return "bool" if isinstance(v, B) else v.ty


def _dom(it, a, v):
    """optional value-domain invariant of a location (it.env['load_domain'](it, loc, value) adds assumptions that every
    write of the client program satisfies, so that thread-local exploration does not fork on unreachable values)"""
    d = it.env.get("load_domain")
    if d:
        r = d(it, a.meta["loc"], v)
        if r is not None:
            return r   # the hook concretised the read (forking over the location's value set)
    return v


def ordering_name(v):
    if isinstance(v, Agg) and v.variant:
        return v.variant
    raise Unsupported(f"memory ordering value {v!r}")


class ThreadRecorder:
    """Installs atomic models that record events instead of touching memory. Locations are numbered in creation order
    of the atomic objects (the shared object is rebuilt identically at the start of every thread run)."""

    def __init__(self, it, tid, loc_names):
        self.it = it
        self.tid = tid
        self.events = []
        self.loc_names = loc_names
        self.active = False
        it.env["rec"] = self

    def loc_of(self, ptr):
        a = deref_all(self.it, ptr)
        if not isinstance(a, Agg) or a.name != "Atomic" or not isinstance(a.meta, dict):
            raise Unsupported(f"atomic access to an untracked object {a!r}")
        return a.meta["loc"]

    def add(self, kind, loc, order, rval=None, wval=None, label=""):
        e = Ev(self.tid, len(self.events), kind, loc, order, rval, wval, label)
        self.events.append(e)
        return e


def install_models(M):
    """atomic models for E3 runs (override the sequential ones)"""
    nloc = [0]
    M.e3_nloc = nloc   # shared location counter (non-atomic cells registered by a property's own models use it too)

    def a_new(it, cal, args):
        a = Agg("Atomic", [args[0]], meta={"loc": nloc[0]})
        it.env.setdefault("locs", []).append((nloc[0], args[0]))
        it.env.setdefault("loc_objs", []).append((nloc[0], a))
        nloc[0] += 1
        return a

    def rec(it):
        r = it.env.get("rec")
        return r if (r and r.active) else None

    def a_load(it, cal, args):
        r = rec(it)
        a = it.load(args[0])
        if r is None:
            return a.fields[0]
        init = a.fields[0]
        v = _dom(it, a, it.fresh(f"t{r.tid}r", _ty(init)))
        o = ordering_name(args[1])
        r.add("R", a.meta["loc"], o, rval=v)
        return v

    def a_store(it, cal, args):
        r = rec(it)
        a = it.load(args[0])
        if r is None:
            a.fields[0] = args[1]
            return unit()
        r.add("W", a.meta["loc"], ordering_name(args[2]), wval=args[1])
        return unit()

    def a_rmw(it, cal, args):
        r = rec(it)
        a = it.load(args[0])
        op = {"fetch_add": "Add", "fetch_sub": "Sub", "fetch_or": "BitOr", "fetch_and": "BitAnd", "fetch_xor": "BitXor", "swap": None}[cal.method]
        if r is None:
            old = a.fields[0]
            a.fields[0] = args[1] if op is None else it.binop(op, old, args[1])
            return old
        old = _dom(it, a, it.fresh(f"t{r.tid}u", _ty(a.fields[0])))
        new = args[1] if op is None else it.binop(op, old, args[1])
        r.add("U", a.meta["loc"], ordering_name(args[2]), rval=old, wval=new)
        return old

    def a_cas(it, cal, args):
        r = rec(it)
        a = it.load(args[0])
        if r is None:
            old = a.fields[0]
            if it.branch(it.binop("Eq", old, args[1]), "cas"):
                a.fields[0] = args[2]
                return m_ok(old)
            return m_err(old)
        old = _dom(it, a, it.fresh(f"t{r.tid}c", _ty(a.fields[0])))
        succ_o, fail_o = ordering_name(args[3]), ordering_name(args[4])
        eq = it.binop("Eq", old, args[1])
        weak = cal.method == "compare_exchange_weak"
        if it.branch(eq, "cas-eq"):
            if weak and it.env.get("spurious_budget", 0) > 0 and it.choose(2, "cas-spurious") == 1:
                it.env["spurious_budget"] -= 1
                r.add("R", a.meta["loc"], fail_o, rval=old, label="cas-spurious")
                return m_err(old)
            r.add("U", a.meta["loc"], succ_o, rval=old, wval=args[2], label="cas")
            return m_ok(old)
        r.add("R", a.meta["loc"], fail_o, rval=old, label="cas-fail")
        return m_err(old)

    def a_fence(it, cal, args):
        r = rec(it)
        if r is not None:
            r.add("F", None, ordering_name(args[0]))
        return unit()

    M.extra.update({
        "Atomic::new": a_new, "AtomicBool::new": a_new, "AtomicUsize::new": a_new, "AtomicU64::new": a_new, "AtomicI64::new": a_new,
        "AtomicU32::new": a_new, "AtomicIsize::new": a_new, "Atomic::load": a_load, "Atomic::store": a_store, "Atomic::fetch_add": a_rmw, "Atomic::fetch_sub": a_rmw,
        "Atomic::fetch_or": a_rmw, "Atomic::fetch_and": a_rmw, "Atomic::fetch_xor": a_rmw, "Atomic::swap": a_rmw,
        "Atomic::compare_exchange": a_cas, "Atomic::compare_exchange_weak": a_cas, "fence": a_fence, "std::sync::atomic::fence": a_fence,
    })
    return M


def collect_thread(program, models_factory, tid, build_shared, thread_body, loop_bound=6, budget_s=120):
    """All paths of one thread: list of dict(events, pc, out, inputs). `build_shared(it)` rebuilds the shared object
    (not recorded), `thread_body(it, shared)` runs the thread's calls (recorded) and returns its observable outputs."""
    paths = []

    def scen(it):
        rec = ThreadRecorder(it, tid, None)
        shared = build_shared(it)
        # the initial value of a location is its value at the end of the (unrecorded, sequential) set-up
        it.env["locs"] = [(loc, a.fields[0]) for (loc, a) in it.env.get("loc_objs", [])]
        rec.active = True
        out = thread_body(it, shared)
        rec.active = False
        paths.append(dict(events=rec.events, pc=list(it.pc), out=out, locs=list(it.env.get("locs", [])), inputs=dict(it.inputs)))

    def on_end(it, exc):
        rec = it.env.get("rec")
        paths.append(dict(events=rec.events if rec else [], pc=list(it.pc), out=("aborted", str(exc)), locs=list(it.env.get("locs", [])),
                          inputs=dict(it.inputs), aborted=type(exc).__name__))

    ex = Explorer(program, models_factory, loop_bound=loop_bound, budget_s=budget_s)
    # feasibility of a thread-local branch depends on other threads' writes: loads are unconstrained here, so every
    # branch outcome that the thread's own constraints allow is explored
    ex.explore(scen, on_path_end=on_end)
    return paths, ex.stats


class Execution:
    """C11 constraint system for one combination of thread paths."""

    def __init__(self, thread_paths, init_locs):
        self.s = z3.Solver()
        self.s.set("timeout", 120000)
        self.events = []
        # initial writes
        self.init = {}
        for loc, val in init_locs:
            e = Ev(-1, loc, "W", loc, "Relaxed", wval=val, label="init")
            self.init[loc] = e
            self.events.append(e)
        for tp in thread_paths:
            for e in tp["events"]:
                self.events.append(e)
            for c in tp["pc"]:
                self.s.add(c)
        for i, e in enumerate(self.events):
            e.uid = i
        n = len(self.events)
        self.n = n
        E = self.events
        for e in E:
            if e.order == "SeqCst":
                raise Unsupported("SeqCst events are outside the encoded fragment")
        writes = {}
        for e in E:
            if e.is_write():
                writes.setdefault(e.loc, []).append(e)
        self.writes = writes
        # mo: integer position per write, distinct per location, init first
        self.mo = {}
        for loc, ws in writes.items():
            for w in ws:
                v = z3.Int(f"mo_{w.uid}")
                self.mo[w.uid] = v
                self.s.add(v >= 0, v < len(ws))
            self.s.add(z3.Distinct([self.mo[w.uid] for w in ws]) if len(ws) > 1 else True)
            if loc in self.init:
                self.s.add(self.mo[self.init[loc].uid] == 0)
        # rf: choice per read
        self.rf = {}   # (w.uid, r.uid) -> Bool
        for r in E:
            if not r.is_read():
                continue
            cands = [w for w in writes.get(r.loc, []) if w is not r]
            if not cands:
                raise Unsupported(f"read of a location without any write: {r}")
            bs = []
            for w in cands:
                b = z3.Bool(f"rf_{w.uid}_{r.uid}")
                self.rf[(w.uid, r.uid)] = b
                bs.append(b)
                self.s.add(z3.Implies(b, _val(r.rval) == _val(w.wval)))
            self.s.add(z3.PbEq([(b, 1) for b in bs], 1))
            if r.kind == "U":
                # atomicity: reads from its immediate mo predecessor
                for w in cands:
                    self.s.add(z3.Implies(self.rf[(w.uid, r.uid)], self.mo[r.uid] == self.mo[w.uid] + 1))
        # po
        po = [[False] * n for _ in range(n)]
        for a in E:
            for b in E:
                if a.tid == -1 and b.tid != -1:
                    po[a.uid][b.uid] = True   # initialisation happens before everything
                elif a.tid == b.tid and a.tid != -1 and a.idx < b.idx:
                    po[a.uid][b.uid] = True
        self.po = po
        # release sequences: rs[w][x]
        rmws = [e for e in E if e.kind == "U"]
        rs = {}
        for w in E:
            if not w.is_write():
                continue
            rs[(w.uid, w.uid)] = z3.BoolVal(True)
        depth = len(rmws)
        for _ in range(depth):
            for w in E:
                if not w.is_write():
                    continue
                for x in rmws:
                    if x.loc != w.loc or x is w:
                        continue
                    terms = []
                    for y in writes.get(w.loc, []):
                        if y is x:
                            continue
                        key = (w.uid, y.uid)
                        if key in rs and (y.uid, x.uid) in self.rf:
                            terms.append(z3.And(rs[key], self.rf[(y.uid, x.uid)]))
                    if terms:
                        prev = rs.get((w.uid, x.uid), z3.BoolVal(False))
                        rs[(w.uid, x.uid)] = z3.simplify(z3.Or([prev] + terms))
        self.rs = rs
        # sw
        sw = [[z3.BoolVal(False)] * n for _ in range(n)]

        def rs_rf(w, r):
            """exists x in rs(w): rf(x, r)"""
            terms = []
            for x in writes.get(w.loc, []):
                if (w.uid, x.uid) in rs and (x.uid, r.uid) in self.rf:
                    terms.append(z3.And(rs[(w.uid, x.uid)], self.rf[(x.uid, r.uid)]))
            return z3.Or(terms) if terms else z3.BoolVal(False)

        rel_sources = []   # (event a that is the sw source, store w heading the release sequence)
        for a in E:
            if a.is_write() and a.order in REL:
                rel_sources.append((a, a))
            if a.kind == "F" and a.order in REL:
                for w in E:
                    if w.tid == a.tid and w.idx > a.idx and w.is_write():
                        rel_sources.append((a, w))
        acq_sinks = []     # (read r, event b that is the sw target)
        for r in E:
            if not r.is_read():
                continue
            if r.order in ACQ:
                acq_sinks.append((r, r))
            for g in E:
                if g.kind == "F" and g.order in ACQ and g.tid == r.tid and g.idx > r.idx:
                    acq_sinks.append((r, g))
        for (a, w) in rel_sources:
            for (r, b) in acq_sinks:
                if a.tid == b.tid or w.loc != r.loc:
                    continue
                t = rs_rf(w, r)
                sw[a.uid][b.uid] = z3.simplify(z3.Or(sw[a.uid][b.uid], t))
        self.sw = sw
        # hb = (po U sw)+
        H = [[(z3.BoolVal(True) if po[i][j] else sw[i][j]) for j in range(n)] for i in range(n)]
        rounds = max(1, math.ceil(math.log2(max(n, 2))))
        for _ in range(rounds):
            H2 = [[None] * n for _ in range(n)]
            for i in range(n):
                for j in range(n):
                    if z3.is_true(H[i][j]):
                        H2[i][j] = H[i][j]
                        continue
                    terms = [H[i][j]]
                    for m in range(n):
                        if z3.is_false(H[i][m]) or z3.is_false(H[m][j]):
                            continue
                        terms.append(z3.And(H[i][m], H[m][j]))
                    H2[i][j] = z3.simplify(z3.Or(terms)) if len(terms) > 1 else terms[0]
            # name the sub-terms to keep the formula size linear per round
            Hn = [[None] * n for _ in range(n)]
            for i in range(n):
                for j in range(n):
                    t = H2[i][j]
                    if z3.is_true(t) or z3.is_false(t):
                        Hn[i][j] = t
                    else:
                        b = z3.Bool(f"hb{_}_{i}_{j}")
                        self.s.add(b == t)
                        Hn[i][j] = b
            H = Hn
        self.hb = H
        # hb irreflexive
        for i in range(n):
            self.s.add(z3.Not(H[i][i]))
        # coherence
        for loc, ws in writes.items():
            for w1 in ws:
                for w2 in ws:
                    if w1 is not w2:
                        self.s.add(z3.Implies(H[w1.uid][w2.uid], self.mo[w1.uid] < self.mo[w2.uid]))   # CoWW
        for r in E:
            if not r.is_read():
                continue
            for w in writes.get(r.loc, []):
                if (w.uid, r.uid) not in self.rf:
                    continue
                rfwr = self.rf[(w.uid, r.uid)]
                self.s.add(z3.Implies(rfwr, z3.Not(H[r.uid][w.uid])))                                   # no read from the future
                for w2 in writes.get(r.loc, []):
                    if w2 is w or w2 is r:
                        continue
                    # CoWR: w2 hb r and r reads w  =>  not mo(w, w2)
                    self.s.add(z3.Implies(z3.And(rfwr, H[w2.uid][r.uid]), self.mo[w2.uid] <= self.mo[w.uid]))
                    # CoRW: r hb w2 and r reads w  =>  mo(w, w2)
                    self.s.add(z3.Implies(z3.And(rfwr, H[r.uid][w2.uid]), self.mo[w.uid] < self.mo[w2.uid]))
            for r2 in E:
                if r2 is r or not r2.is_read() or r2.loc != r.loc:
                    continue
                for w in writes.get(r.loc, []):
                    for w2 in writes.get(r.loc, []):
                        if (w.uid, r.uid) in self.rf and (w2.uid, r2.uid) in self.rf and w is not w2:
                            # CoRR: r hb r2, r reads w, r2 reads w2 => not mo(w2, w)
                            self.s.add(z3.Implies(z3.And(H[r.uid][r2.uid], self.rf[(w.uid, r.uid)], self.rf[(w2.uid, r2.uid)]),
                                                  self.mo[w.uid] <= self.mo[w2.uid]))
        # acyclic(po U rf): rank
        rank = [z3.Int(f"rk_{i}") for i in range(n)]
        for i in range(n):
            for j in range(n):
                if po[i][j]:
                    self.s.add(rank[i] < rank[j])
        for (wu, ru), b in self.rf.items():
            self.s.add(z3.Implies(b, rank[wu] < rank[ru]))

    def rf_source(self, model, r):
        for (wu, ru), b in self.rf.items():
            if ru == r.uid and z3.is_true(model.eval(b, model_completion=True)):
                return self.events[wu]
        return None

    def describe(self, model):
        out = []
        for e in self.events:
            d = repr(e)
            if e.is_read():
                w = self.rf_source(model, e)
                d += f" reads {model.eval(_val(e.rval), model_completion=True)} from {w!r}"
            if e.is_write():
                d += f" writes {model.eval(_val(e.wval), model_completion=True)} mo#{model.eval(self.mo[e.uid], model_completion=True)}"
            out.append(d)
        return out

    def races(self):
        """Bool: some pair of conflicting non-atomic accesses of different threads is unordered by hb"""
        na = [e for e in self.events if e.kind in ("NW", "NR")]
        terms = []
        for a, b in itertools.combinations(na, 2):
            if a.tid == b.tid or a.loc != b.loc or (a.kind == "NR" and b.kind == "NR"):
                continue
            terms.append(z3.And(z3.Not(self.hb[a.uid][b.uid]), z3.Not(self.hb[b.uid][a.uid])))
        return z3.Or(terms) if terms else z3.BoolVal(False)


def _val(v):
    if hasattr(v, "v"):
        return v.v
    return v


def check_program(threads_paths, init_locs, violation_fn, stats=None, max_combos=5000, shard=None, constrain_fn=None):
    """threads_paths: list (per thread) of lists of path dicts.  violation_fn(execution, combo) -> z3 Bool or None.
    `constrain_fn(execution, combo)` adds scenario constraints that also apply to combinations with an aborted thread;
    `shard=(i, n)` restricts the run to every n-th combination (parallel runs).
    Returns (result, info): 'unsat' for all combos, or ('sat', witness)."""
    t0 = time.time()
    ncombo = nq = 0
    for ci, combo in enumerate(itertools.product(*threads_paths)):
        if shard and ci % shard[1] != shard[0]:
            continue
        ncombo += 1
        if ncombo > max_combos:
            raise Unsupported("too many thread-path combinations")
        if any(p.get("aborted") for p in combo):
            aborted = [p for p in combo if p.get("aborted")]
            ex = Execution(list(combo), init_locs)
            if constrain_fn:
                constrain_fn(ex, combo)
            nq += 1
            if ex.s.check() == z3.sat:
                return "sat", dict(kind="thread-aborted", detail=str(aborted[0]["out"]), events=ex.describe(ex.s.model()), combos=ncombo, queries=nq,
                                   solver_s=time.time() - t0)
            continue
        ex = Execution(list(combo), init_locs)
        if constrain_fn:
            constrain_fn(ex, combo)
        viol = violation_fn(ex, combo)
        if viol is None:
            continue
        for kind, f in viol:
            ex.s.push()
            ex.s.add(f)
            nq += 1
            r = ex.s.check()
            if r == z3.unknown:
                raise Unsupported(f"solver unknown: {ex.s.reason_unknown()}")
            if r == z3.sat:
                m = ex.s.model()
                vals = {}
                for p in combo:
                    for k, v in p["inputs"].items():
                        ev = m.eval(_val(v), model_completion=True)
                        vals[k] = z3.is_true(ev) if z3.is_bool(ev) else ev.as_long()
                return "sat", dict(kind=kind, events=ex.describe(m), values=vals, combos=ncombo, queries=nq, solver_s=time.time() - t0,
                                   outs=[str(p["out"]) for p in combo])
            ex.s.pop()
    return "unsat", dict(combos=ncombo, queries=nq, solver_s=time.time() - t0)
