"""Runner for the properties decided by E2 on the driver logic (C01, C07, C08, C09, C10, C11, C18):
MIR dump of the current tree -> symbolic exploration of script shapes on 16 processes -> native replay of solver
counterexamples -> translator validation (concrete differential runs) -> evidence."""
import hashlib
import json
import multiprocessing as mp
import os
import random
import time
import traceback

from . import common as C

_G = {}


def dump_mir(work):
    """MIR of the current /repo working tree (overlay copy, unmodified), via the pre-installed nightly."""
    crate = work.sync_overlay("ovm")
    os.utime(os.path.join(crate, "src", "lib.rs"), None)
    out_path = work.sub("mir.txt")
    cmd = ["cargo", "+nightly", "rustc", "--offline", "--lib", "--target-dir", work.sub("mir-target"), "--",
           "-Zunpretty=mir", "-C", "debug-assertions=off", "-C", "overflow-checks=on"]
    import subprocess
    t0 = time.time()
    with open(out_path, "w") as fo, open(work.sub("mir.err"), "w") as fe:
        p = subprocess.run(cmd, cwd=crate, env=C.env_offline(), stdout=fo, stderr=fe, timeout=1200)
    ok = p.returncode == 0 and os.path.getsize(out_path) > 100000
    return (out_path if ok else None), os.path.dirname(crate), time.time() - t0


def _init_worker(mir_path, src_root):
    from .mirse import interp as IN
    _G["P"] = IN.Program(mir_path, src_root)


def _explore_one(job):
    """job: dict(script, opts, groups, concrete=None). Returns a result dict (picklable)."""
    from .mirse import interp as IN, simworld as SW, driver as D
    P = _G["P"]
    script, opts, groups = job["script"], job.get("opts") or {}, job.get("groups")
    res = dict(job=job, violations=[], error=None, cut=0, ok_paths=0)
    obs_dump = []

    def scenario(it):
        if job.get("concrete") is not None:
            it.env["concrete"] = job["concrete"]
        obs, PP, w = D.run_script_sym(it, script, opts)
        ck = D.Checker(it, groups)
        D.oracle(script, PP, obs, ck, opts)
        if ck.cut:
            res["cut"] += 1
        if job.get("concrete") is not None:
            obs_dump.append(_obs_to_plain(it, obs))

    # the budget only matters for a shape that is unexpectedly slow (a loaded or slower machine): generous on purpose,
    # exhausting it is inconclusive, never success
    ex = IN.Explorer(P, SW.make_models, loop_bound=12, max_paths=job.get("max_paths", 60000), budget_s=job.get("budget_s", 600))
    t0 = time.time()
    try:
        viol, outcomes = ex.explore(scenario)
        res["outcomes"] = dict(outcomes)
        seen = set()
        for v in viol:
            key = (v.label,)
            if key in seen and len([x for x in res["violations"] if x["label"] == v.label]) >= 3:
                continue
            seen.add(key)
            res["violations"].append(dict(label=v.label, detail=v.detail, vals={k: int(x) if not isinstance(x, bool) else x
                                                                               for k, x in v.model_vals.items()}))
    except IN.Unsupported as e:
        res["error"] = f"unsupported: {e}"
    except Exception as e:
        res["error"] = f"internal: {e}\n{traceback.format_exc()[-1500:]}"
    st = ex.stats
    res["stats"] = dict(paths=st.paths, steps=st.steps, queries=st.queries, solver_s=st.solver_s, obligations=st.obligations,
                        discharged=st.discharged, funcs=dict(st.funcs), models=dict(st.models), wall=time.time() - t0)
    if obs_dump:
        res["obs"] = obs_dump
    return res


def _obs_to_plain(it, obs):
    """concrete observation stream (after a run under concrete parameters) as plain python data"""
    import z3
    m = None
    out = []

    def val(x):
        nonlocal m
        s = z3.simplify(x)
        if z3.is_int_value(s):
            return s.as_long()
        if m is None:
            it.solver.check()
            m = it.solver.model()
        return m.eval(x, model_completion=True).as_long()

    for o in obs:
        d = dict(res=None if o.res is None else [o.res[0]] + ([o.res[1]] if len(o.res) > 1 else []),
                 time=None if o.time is None else val(o.time), aborted=o.aborted, events=[])
        for e in o.events:
            if e[0] == "fire":
                d["events"].append(["fire", e[1], val(e[2])])
            elif e[0] == "sync":
                d["events"].append(["sync", val(e[1])])
            elif e[0] == "esched":
                d["events"].append(["esched", e[1], e[2][0]] + ([e[2][1]] if len(e[2]) > 1 else []))
            elif e[0] == "ecancel":
                d["events"].append(["ecancel", e[1]])
        out.append(d)
    return out


def _native_plain(obs):
    import z3
    out = []
    for o in obs:
        d = dict(res=None if o.res is None else [o.res[0]] + ([o.res[1]] if len(o.res) > 1 else []),
                 time=None if o.time is None else z3.simplify(o.time).as_long(), aborted=o.aborted, events=[])
        for e in o.events:
            if e[0] == "fire":
                d["events"].append(["fire", e[1], e[2].as_long()])
            elif e[0] == "sync":
                d["events"].append(["sync", e[1].as_long()])
            elif e[0] == "esched":
                d["events"].append(["esched", e[1], e[2][0]] + ([e[2][1]] if len(e[2]) > 1 else []))
            elif e[0] == "ecancel":
                d["events"].append(["ecancel", e[1]])
        out.append(d)
    return out


def script_hash(script, opts):
    return hashlib.sha256(json.dumps([script, opts], sort_keys=True, default=str).encode()).hexdigest()[:12]


def short(script):
    out = []
    for c in script:
        if c["op"] == "sched":
            e = c.get("effect")
            es = "" if not e else ("+" + (e["op"] if e["op"] != "sched" else f"sched-{e['kind']}-{e['dl']}"))
            out.append(f"sched({c['kind']},o{c['origin']},{c['dl']}{es})")
        elif c["op"] == "until":
            out.append(f"until({c['dl']})")
        elif c["op"] in ("cancel", "dropauto"):
            out.append(f"{c['op']}({c['key']})")
        else:
            out.append(c["op"])
    return " ; ".join(out)


def run_family(prop, tier, ev, jobs, *, groups, validate_scripts=0, roles=None, nproc=14, label_prop=None):
    """jobs: list of dict(script, opts). groups: obligation groups (label prefixes) judged for this property.
    Returns exit code."""
    from .mirse import native as NV, driver as D
    work = C.WorkDir(f"mirse-{prop}")
    try:
        mir, src_root, mir_s = dump_mir(work)
        if not mir:
            C.log(f"INCONCLUSIVE property={prop} build: MIR dump of the current tree failed (see {work.sub('mir.err')})")
            ev.write("inconclusive: MIR dump failed")
            return C.EXIT_INCONCLUSIVE
        ev.cov["engines"].append("mirse (MIR symbolic executor, z3 %s)" % _z3ver())
        ev.cov["bounds"]["mir_dump_s"] = round(mir_s, 1)
        for j in jobs:
            j["groups"] = groups
        t0 = time.time()
        with mp.Pool(nproc, initializer=_init_worker, initargs=(mir, src_root)) as pool:
            results = pool.map(_explore_one, jobs, chunksize=1)
        explore_s = time.time() - t0
        errors = [r for r in results if r["error"]]
        all_funcs, all_models = {}, {}
        nviol = 0
        by_label = {}
        for r in results:
            st = r["stats"]
            ev.cov["states"] += st["paths"]
            ev.cov["transitions"] += st["steps"]
            ev.cov["queries"] += st["queries"]
            ev.cov["solver_time_s"] += st["solver_s"]
            ev.cov["obligations"] += st["obligations"]
            ev.cov["discharged"] += st["discharged"]
            for k, v in st["funcs"].items():
                all_funcs[k] = all_funcs.get(k, 0) + v
            for k, v in st["models"].items():
                all_models[k] = all_models.get(k, 0) + v
            for v in r["violations"]:
                by_label.setdefault(v["label"], []).append((r["job"], v))
            if not r["error"] and not r["violations"]:
                ev.add_sample(dict(script=short(r["job"]["script"]), opts={k: v for k, v in (r["job"].get("opts") or {}).items()},
                                   paths=st["paths"], obligations=st["obligations"], discharged=st["discharged"],
                                   cut_paths=r["cut"], solver_s=round(st["solver_s"], 3)))
        ev.cov["functions_encoded"] = sorted(k for k in all_funcs if not k.endswith("]"))[:200]
        ev.cov["shapes"] = len(jobs)
        ev.cov["bounds"]["explore_wall_s"] = round(explore_s, 1)
        ev.assumptions += [f"model: {k} (used {v}x)" for k, v in sorted(all_models.items())]
        rc = C.EXIT_OK
        if errors:
            for r in errors[:5]:
                C.log(f"[{prop}] inconclusive shape {short(r['job']['script'])}: {r['error'][:400]}")
            ev.notes.append(f"{len(errors)} shapes inconclusive: {errors[0]['error'][:300]}")
            rc = C.EXIT_INCONCLUSIVE

        # ---- native replay of counterexamples
        exe = None
        if by_label or validate_scripts:
            exe, bout = NV.build_runner(work)
            if not exe:
                C.log(f"INCONCLUSIVE property={prop} build: native script runner does not build against the current tree")
                ev.notes.append("native runner build failed")
                ev.write("inconclusive: native runner build failed")
                return C.EXIT_INCONCLUSIVE
        for label, items in sorted(by_label.items()):
            role = label
            kf = C.known_finding_for(prop, role)
            reproduced = None
            items = sorted(items, key=lambda jv: 0 if (jv[0].get("opts") or {}).get("tie") else 1)
            if label in RACE_LABELS:
                # structural lock-discipline obligation: its violation needs a second thread to manifest; replayed by a
                # native two-thread stress run against the real crate (fails with high probability within seconds)
                job, v = items[0]
                d = C.replay_dir(prop, label.split(":")[1][:40])
                ok_r, log_r = race_replay(work, d)
                with open(os.path.join(d, "counterexample.json"), "w") as f:
                    json.dump(dict(property=prop, obligation=label, detail=v["detail"], script=job["script"], opts=job.get("opts") or {},
                                   values=v["vals"], race=True, native=log_r), f, indent=1, default=str)
                with open(os.path.join(d, "README.txt"), "w") as f:
                    f.write(f"Lock-discipline violation for {prop}, obligation {label}: {v['detail']}\n"
                            f"Found on the MIR (script {short(job['script'])}); replayed by harness/native/verif_race.rs: a scheduling thread races "
                            f"the stepping thread; observed:\n" + "\n".join(log_r) + f"\nRe-run: ./check {prop} --replay {d}\n")
                if ok_r:
                    reproduced = (d, v, [(label, "race")])
                items = []
            for job, v in items[:8]:
                script, opts = job["script"], job.get("opts") or {}
                text = NV.render(script, v["vals"], opts)
                d = C.replay_dir(prop, script_hash(script, opts) + "-" + label.split(":")[1][:40])
                spath = os.path.join(d, "script.txt")
                nobs, raw = NV.run_native(exe, text, spath, threads=1)
                nopts = dict(opts)
                nopts["native"] = True
                ck = D.Checker(None, groups)
                try:
                    D.oracle(script, D.ConcParams(v["vals"]), nobs, ck, nopts)
                except Exception as e:
                    ck.failed.append(("oracle-error", str(e)))
                with open(os.path.join(d, "native_trace.txt"), "w") as f:
                    f.write(raw)
                with open(os.path.join(d, "counterexample.json"), "w") as f:
                    json.dump(dict(property=prop, obligation=label, detail=v["detail"], script=script, opts=opts, values=v["vals"],
                                   native_failed=[list(x) for x in ck.failed]), f, indent=1, default=str)
                with open(os.path.join(d, "README.txt"), "w") as f:
                    f.write(f"Counterexample for {prop}, obligation {label}: {v['detail']}\n"
                            f"script.txt is the driver script with the solver's concrete values; native_trace.txt is what the\n"
                            f"real crate did when the script was run through its public API (harness/native/verif_runner.rs).\n"
                            f"Re-run: ./check {prop} --replay {d}\n")
                fl = [x[0] for x in ck.failed]
                if label in fl or any(x.split(":")[0] == label.split(":")[0] for x in fl):
                    reproduced = (d, v, ck.failed)
                    break
            if reproduced:
                d, v, failed = reproduced
                if kf:
                    C.log(f"KNOWN-FINDING: property={prop} {kf.get('what', role)}")
                    ev.notes.append(f"known finding reproduced: {role}")
                else:
                    ev.violations += 1
                    C.log(f"[{prop}] {label}: {v['detail']}  values={ {k: x for k, x in v['vals'].items() if '!' not in k} }")
                    C.log(f"VIOLATION property={prop} replay={d}")
                    rc = C.EXIT_VIOLATION
            else:
                C.log(f"INCONCLUSIVE property={prop} obligation {label}: the solver's counterexample(s) did not reproduce natively "
                      f"({items[0][1]['detail']}; values {items[0][1]['vals']})")
                ev.notes.append(f"non-reproducing counterexample for {label}")
                if rc == C.EXIT_OK:
                    rc = C.EXIT_INCONCLUSIVE

        # ---- translator validation: concrete scripts through MIRSE and natively
        if validate_scripts and exe:
            rnd = random.Random(C.seed() * 7919 + 17)
            cjobs = []
            pool_jobs = [j for j in jobs if not (j.get("opts") or {}).get("fault_at") and not (j.get("opts") or {}).get("permute")]
            rnd.shuffle(pool_jobs)
            for j in pool_jobs[:validate_scripts]:
                vals = random_vals(j["script"], j.get("opts") or {}, rnd)
                cjobs.append(dict(script=j["script"], opts=j.get("opts") or {}, groups=groups, concrete=vals))
            with mp.Pool(nproc, initializer=_init_worker, initargs=(mir, src_root)) as pool:
                cres = pool.map(_explore_one, cjobs, chunksize=1)
            agree = 0
            for r in cres:
                job = r["job"]
                if r["error"] or not r.get("obs"):
                    continue
                text = NV.render(job["script"], job["concrete"], job["opts"])
                nobs, raw = NV.run_native(exe, text, work.sub("validate-script.txt"), threads=1)
                a, b = r["obs"][0], _native_plain(nobs)
                if _streams_equal(a, b):
                    agree += 1
                else:
                    # a concrete run on which a known finding manifests (hang) is not a translator problem
                    if any(x.get("aborted") in ("loopbound", "hang") for x in a) and any(x.get("aborted") == "hang" for x in b):
                        agree += 1
                        continue
                    C.log(f"[{prop}] translator validation MISMATCH on {short(job['script'])} values {job['concrete']}\n  mirse : {a}\n  native: {b}")
                    ev.notes.append(f"translator mismatch: {short(job['script'])}")
                    if rc == C.EXIT_OK:
                        rc = C.EXIT_INCONCLUSIVE
            ev.cov["traces_validated_against_impl"] = agree
        C.log(f"[{prop}] mirse: {len(jobs)} shapes, {ev.cov['states']} paths, {ev.cov['obligations']} obligations "
              f"({ev.cov['discharged']} discharged), {len(by_label)} violated obligation kinds, {len(errors)} inconclusive shapes, "
              f"explore {explore_s:.0f}s")
        return rc
    finally:
        work.close()


RACE_LABELS = {"C08:time-advances-under-the-queue-lock", "C08:request-validated-under-the-queue-lock"}


def race_replay(work, d, secs=10, attempts=3):
    """two-thread stress run of the real crate (release build); returns (reproduced, log lines)"""
    import re
    import shutil
    import subprocess
    crate = work.sync_overlay("ovn")
    shutil.copy(os.path.join(C.VERIF, "harness", "native", "verif_race.rs"), os.path.join(crate, "tests", "verif_race.rs"))
    rc, out = C.run(["cargo", "test", "--offline", "--release", "--test", "verif_race", "--no-run", "--target-dir", work.sub("native-target")],
                    cwd=crate, timeout=1800, log_path=work.sub("native-build-race.log"))
    m = re.findall(r"Executable tests/verif_race\.rs \(([^)]+)\)", out)
    if rc != 0 or not m:
        return None, ["build failed"]
    exe = m[-1] if os.path.isabs(m[-1]) else os.path.join(crate, m[-1])
    log = []
    for a in range(attempts):
        for mode in ("until", "step"):
            try:
                p = subprocess.run([exe, "--nocapture"], env=C.env_offline({"VERIF_RACE": mode, "VERIF_RACE_SECS": str(secs)}), stdout=subprocess.PIPE,
                                   stderr=subprocess.STDOUT, text=True, timeout=secs * 6 + 60)
                lines = [l for l in p.stdout.splitlines() if l.startswith("race-")]
            except subprocess.TimeoutExpired:
                lines = [f"race-violation mode={mode}: the stepping thread did not return (hang)"]
            log += lines
            if any(l.startswith("race-violation") for l in lines):
                with open(os.path.join(d, "native_trace.txt"), "w") as f:
                    f.write("\n".join(log) + "\n")
                return True, log
    with open(os.path.join(d, "native_trace.txt"), "w") as f:
        f.write("\n".join(log) + "\n")
    return False, log


def _streams_equal(a, b):
    def canon(evs):
        """events with runs of same-time executions sorted: the relative order of actions of DIFFERENT origins due at
        the same time is unspecified (separate tasks), so it is not compared"""
        out, run = [], []
        for e in evs:
            if e[0] == "fire":
                if run and run[-1][2] != e[2]:
                    out += sorted(run)
                    run = []
                run.append(e)
            else:
                out += sorted(run)
                run = []
                if e[0] != "ecancel" and e[0] != "esched":
                    out.append(e)
        return out + sorted(run)

    for k, x in enumerate(a):
        if k >= len(b):
            return False
        y = b[k]
        if x.get("aborted") == "cut":
            # the symbolic run stopped at the step_until bound: what it observed must be a prefix of the native run
            ex, ey = canon(x["events"]), canon(y["events"])
            n = max(0, len(ex) - 3)
            return ex[:n] == ey[:n]
        if x.get("aborted") or y.get("aborted"):
            return bool(x.get("aborted")) == bool(y.get("aborted"))
        if x["res"] != y["res"] or x["time"] != y["time"]:
            return False
        if canon(x["events"]) != canon(y["events"]):
            return False
    return len(a) == len(b)


def random_vals(script, opts, rnd):
    """small random concrete parameters (times within a few tens of ns of each other so that ties and orderings vary)"""
    vals = {"t0.t": rnd.choice([0, 5, 1_000_000_000 - 2, -3])}
    base = vals["t0.t"]
    for i, c in enumerate(script):
        if c["op"] in ("sched", "until"):
            vals[f"c{i}.t"] = base + rnd.randint(-2, 12)
            vals[f"c{i}.d"] = rnd.randint(0, 9)
            vals[f"c{i}.p"] = rnd.choice([1, 2, 3, 5])
            if c.get("effect") and c["effect"]["op"] == "sched":
                vals[f"e{i}.t"] = base + rnd.randint(-2, 14)
                vals[f"e{i}.d"] = rnd.randint(0, 6)
                vals[f"e{i}.p"] = rnd.choice([1, 2, 4])
    if opts.get("tolerance"):
        vals["tol.d"] = rnd.randint(0, 5)
    for k, s in enumerate(opts.get("clock") or []):
        vals[f"lag{k}.d"] = rnd.randint(0, 8)
        if isinstance(s, dict):
            vals[f"k{k}.t"] = base + rnd.randint(-2, 14)
            vals[f"k{k}.d"] = rnd.randint(0, 6)
            vals[f"k{k}.p"] = rnd.choice([1, 2, 4])
    return vals


def _z3ver():
    import z3
    return z3.get_version_string()


def replay(prop, path, groups):
    """./check <prop> --replay <dir>: re-run the stored script natively on the current tree and re-judge it."""
    from .mirse import native as NV, driver as D
    cj = os.path.join(path, "counterexample.json")
    if not os.path.exists(cj):
        C.log(f"no counterexample.json in {path}")
        return C.EXIT_INCONCLUSIVE
    ce = json.load(open(cj))
    work = C.WorkDir(f"mirse-{prop}")
    try:
        if ce.get("race"):
            okr, logr = race_replay(work, path)
            print("\n".join(logr))
            if okr:
                C.log(f"VIOLATION property={prop} replay={path}")
                return C.EXIT_VIOLATION
            return C.EXIT_OK if okr is False else C.EXIT_INCONCLUSIVE
        exe, out = NV.build_runner(work)
        if not exe:
            C.log("native runner build failed")
            return C.EXIT_INCONCLUSIVE
        text = NV.render(ce["script"], ce["values"], ce["opts"])
        nobs, raw = NV.run_native(exe, text, work.sub("replay-script.txt"))
        print(raw[-3000:])
        nopts = dict(ce["opts"])
        nopts["native"] = True
        ck = D.Checker(None, groups)
        D.oracle(ce["script"], D.ConcParams(ce["values"]), nobs, ck, nopts)
        if ck.failed:
            for f in ck.failed:
                C.log(f"  failed obligation: {f}")
            C.log(f"VIOLATION property={prop} replay={path}")
            return C.EXIT_VIOLATION
        C.log("the stored counterexample does not violate the property on the current tree")
        return C.EXIT_OK
    finally:
        work.close()
