"""Boilerplate shared by the property files of the driver-logic family."""
from . import common as C
from . import drvprop as DP

DRIVER_FILES = ["nexosim/src/simulation.rs", "nexosim/src/simulation/scheduler.rs", "nexosim/src/time.rs",
                "nexosim/src/util/priority_queue.rs", "nexosim/src/util/sync_cell.rs", "nexosim/src/time/monotonic_time.rs",
                "nexosim/src/util/seq_futures.rs"]

COMMON_OUTSIDE = [
    "the executor, mailboxes and model coroutines (environment model: every spawned future runs to completion inside run(); keyed events re-check their key there as send_keyed_event does)",
    "worker threads and real preemption", "MonotonicTime overflow panics",
    "step_until crossing more distinct due times than the stated bound (such paths are cut)",
    "script shapes outside the enumerated families",
]

NUMBERS = ("start time, every deadline, period, step_until target (and clock lag / tolerance where used) are symbolic over the full "
           "range of MonotonicTime/Duration, as total nanoseconds; decided by z3 for every value")


def run_prop(prop, groups, tier, jobs, bounds, outside=None, validate=None, only=None, files=None, extra=None):
    ev = C.Evidence(prop, tier)
    ev.cov["source_sha256"] = C.source_hashes(files or DRIVER_FILES)
    if only:
        jobs = [j for j in jobs if only in DP.short(j["script"])]
    if tier == "thorough":
        # the deeper shapes (three actions under two or three stepping commands) need minutes each
        for j in jobs:
            j.setdefault("budget_s", 2400)
            j.setdefault("max_paths", 400000)
    b = dict(bounds)
    b.setdefault("numbers", NUMBERS)
    ev.cov["bounds"] = b
    ev.cov["outside_claim"] = (outside or []) + COMMON_OUTSIDE
    if validate is None:
        validate = 24 if tier == "quick" else 120
    rc = DP.run_family(prop, tier, ev, jobs, groups=groups, validate_scripts=validate)
    if extra:
        rc2 = extra(ev)
        if rc2 == C.EXIT_VIOLATION or rc == C.EXIT_OK:
            rc = rc2 if rc2 != C.EXIT_OK else rc
    ev.write({0: "held on everything explored", 1: "violation", 2: "inconclusive"}[rc])
    return rc
