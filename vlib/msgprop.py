"""Runner of the message-plane properties (C02, C03, C14, C16 and the wake-up clause of C12): every bench of
vlib/msgplane.py that lists the property is explored by MIRSE on the real ports/channel/model-task MIR; the oracle's
obligations carrying the property's label prefix are judged; counterexamples are replayed natively."""
import json
import os
import subprocess

from vlib import common as C
from vlib import msgplane as MPL
from vlib import scnprop as SP

FILES = ["nexosim/src/channel.rs", "nexosim/src/channel/queue.rs", "nexosim/src/ports/output.rs", "nexosim/src/ports/output/broadcaster.rs",
         "nexosim/src/ports/output/sender.rs", "nexosim/src/util/task_set.rs", "nexosim/src/util/cached_rw_lock.rs", "nexosim/src/simulation.rs",
         "nexosim/src/simulation/sim_init.rs", "nexosim/src/model.rs"]

OUTSIDE = ["real threads: tasks interleave only at their await points (one task runs at a time); data races and memory-ordering effects inside "
           "the channel, TaskSet and CachedRwLock are not explored here",
           "the executors themselves (work stealing, parking): the executor model polls one ready task at a time, in every order",
           "benches beyond the listed ones (<= 5 models, mailbox capacities 1-2, <= 4 operations per handler, <= 3 driver commands)",
           "the leaf crates async-event, diatomic-waker, multishot, recycle-box are modelled after their sources (vlib/mirse/asyncmodels.py)"]


def script_lines(bench, driver, bits, threads):
    L = []
    for m in bench["models"]:
        L.append(f"model {m['name'] or '_'} {m.get('cap', 1)} {m['parent'] if m.get('parent') is not None else -1}")
    for kind, table in (("output", bench.get("outputs", {})), ("requestor", bench.get("requestors", {}))):
        for key, conns in table.items():
            cs = " ".join(f"{c['to']}:{c.get('port', 0)}:{c.get('kind', 'plain')}:{1 if c.get('late') else 0}" for c in conns)
            L.append(f"{kind} {key} {bench.get('handles', {}).get(key, 'orig')} {cs}")

    def one(x):
        if x[0] == "yield":
            return "yield"
        if x[0] == "join":
            return "join:" + "+".join(one(y) for y in x[1:])
        return {"send": "send", "query": "query", "query-first": "queryfirst"}[x[0]] + f":{x[1]}"

    def ops(o):
        return " ".join(one(x) for x in o)
    for key, o in bench.get("handlers", {}).items():
        L.append(f"handler {key} {ops(o)}")
    for key, o in bench.get("init", {}).items():
        L.append(f"init {key} {ops(o)}")
    L.append("bits " + " ".join(str(b) for b in bits))
    L.append(f"threads {threads}")
    for cmd in driver:
        if cmd[0] == "connect":
            L.append(f"connect {cmd[1]} {cmd[2]} {cmd[3]}")
        else:
            L.append(f"event {cmd[0]} {cmd[1]}")
    return L


def _tuplify(x):
    return tuple(_tuplify(y) for y in x) if isinstance(x, list) else x


def native_logs(work, bench, driver, bits, d, runs):
    """runs: list of (threads, repetitions) -> list of (threads, log)"""
    exe = SP.build_native_test(work, "verif_bench", os.path.join(C.VERIF, "harness", "native", "verif_bench.rs"))
    if not exe:
        return None
    out = []
    for threads, reps in runs:
        spath = os.path.join(d, f"script-{threads}.txt")
        open(spath, "w").write("\n".join(script_lines(bench, driver, bits, threads)) + "\n")
        for _ in range(reps):
            try:
                p = subprocess.run([exe, "--nocapture"], env=C.env_offline({"VERIF_SCRIPT": spath}), stdout=subprocess.PIPE, stderr=subprocess.STDOUT,
                                   text=True, timeout=60)
                txt = p.stdout
            except subprocess.TimeoutExpired:
                out.append((threads, None, "timeout"))
                continue
            log = [_tuplify(json.loads(l[4:])) for l in txt.splitlines() if l.startswith("LOG ")]
            panic = [l for l in txt.splitlines() if "panicked at" in l]
            out.append((threads, log, panic[0] if panic else None))
    return out


def sched_replay(work, bench, driver, bits, wlog, d):
    """the counterexample's exact task schedule on the real compiled code: the shared part of verif_bench.rs plus
    verif_sched_tail.rs, compiled inside the overlay crate (cfg(test)); returns the native observation log or None"""
    crate = work.sync_overlay("ovs")
    src = open(os.path.join(C.VERIF, "harness", "native", "verif_bench.rs")).read()
    shared = src.split("// ---- RUNNER (public API)")[0]
    shared = "\n".join(("//" + l[3:]) if l.startswith("//!") else l for l in shared.split("\n"))
    tail = open(os.path.join(C.VERIF, "harness", "native", "verif_sched_tail.rs")).read()
    with open(os.path.join(crate, "src", "verif_sched.rs"), "w") as f:
        f.write("#![allow(unused_imports, dead_code)]\nuse crate as nexosim;\n" + shared + tail)
    with open(os.path.join(crate, "src", "lib.rs"), "a") as f:
        f.write("\n#[cfg(test)]\nmod verif_sched;\n")
    groups, cur = [], None
    for e in wlog:
        if e[0] == "cmd-begin":
            cur = []
        elif e[0] == "poll" and cur is not None:
            cur.append(e[1])
        elif e[0] == "cmd-end" and cur is not None:
            groups.append(cur)
            cur = None
    if cur is not None:
        groups.append(cur)
    lines = script_lines(bench, driver, bits, 1) + ["sched " + " ".join(str(x) for x in g) for g in groups]
    spath = os.path.join(d, "script-sched.txt")
    open(spath, "w").write("\n".join(lines) + "\n")
    rc, out = C.run(["cargo", "test", "--offline", "--lib", "--target-dir", work.sub("sched-target"), "verif_run_sched_script", "--", "--nocapture"],
                    cwd=crate, env=C.env_offline({"VERIF_SCRIPT": spath}), timeout=1500, log_path=os.path.join(d, "sched_replay.log"))
    if "test result:" not in out:
        return None, "build or run failed (sched_replay.log)"
    panic = [l for l in out.splitlines() if "panicked at" in l]
    log = [_tuplify(json.loads(l[4:])) for l in out.splitlines() if l.startswith("LOG ")]
    return log, (panic[0] if panic else None)


def validate_models(work, mir, src_root, benches, per_bench=2):
    """translator/model validation: for the first paths of each bench the symbolic observation log must equal, entry by
    entry, the log of the real compiled code polled in the same task order (scheduled in-crate replay).  -> (ok, total, notes)"""
    from vlib.mirse import interp as IN
    P = IN.Program(mir, src_root)
    ok = total = 0
    notes = []
    d = work.sub("validate")
    os.makedirs(d, exist_ok=True)
    for b in benches:
        logs = []

        def scen(it, b=b):
            from vlib.mirse.taskworld import TaskWorld
            w = TaskWorld(it, b["bench"], permute=b.get("permute", True))
            if w.sim_cell is not None:
                for k, cmd in enumerate(b["driver"]):
                    if cmd[0] == "connect":
                        w.connect_late(cmd[1], cmd[2], cmd[3])
                        continue
                    if w.process_event(k + 1, cmd[0], cmd[1]) != ("Ok",):
                        break
            vals = it.model_values() or {}
            logs.append((list(w.log), vals))
        ex = IN.Explorer(P, MPL.make_models, loop_bound=60, max_paths=per_bench, budget_s=120)
        try:
            ex.explore(scen, on_path_end=lambda it, e: None)
        except IN.Unsupported:
            pass   # the path cap ends the exploration
        for log, vals in logs[:per_bench]:
            total += 1
            bits = [int(vals.get(f"d{m}", 1)) & 1 for m in range(1, 64)]
            nlog, panic = sched_replay(work, b["bench"], b["driver"], bits, log, d)
            if nlog is None:
                notes.append(f"{b['name']}: scheduled replay failed: {panic}")
                continue
            def norm(x):
                return tuple(norm(y) for y in x) if isinstance(x, (list, tuple)) else x
            a = [norm(x) for x in log]
            nlog = [norm(x) for x in nlog]
            if a == nlog:
                ok += 1
            else:
                k = next((i for i, (x, y) in enumerate(zip(a, nlog)) if x != y), min(len(a), len(nlog)))
                notes.append(f"{b['name']}: logs differ at entry {k}: symbolic {a[k] if k < len(a) else None} vs native {nlog[k] if k < len(nlog) else None}")
    return ok, total, notes


def make_native(prop):
    def _native(work, job, v, d):
        w = v["witness"] or {}
        bench, driver = w.get("bench", job["params"]["bench"]), w.get("driver", job["params"]["driver"])
        nmsg = 64
        bits = [int(v["vals"].get(f"d{m}", 1)) & 1 for m in range(1, nmsg)]
        lines = []
        hit = False
        acyc = job["params"].get("acyclic", True)
        if w.get("log"):
            slog, spanic = sched_replay(work, bench, driver, bits, [_tuplify(e) for e in w["log"]], d)
            if slog is None:
                lines.append(f"scheduled replay: {spanic}")
            else:
                bad = [(l, dt) for (l, ok, dt) in MPL.judge(bench, slog, acyclic=acyc) if not ok and l.startswith(prop)]
                if spanic and v["label"].endswith("no-panic"):
                    bad.append((v["label"], spanic))
                lines.append(f"scheduled replay (the counterexample's task order, polled by hand inside the crate): {len(bad)} violated obligation(s)"
                             f"{': ' + bad[0][0] + ' — ' + bad[0][1] if bad else ''}{' panic: ' + spanic if spanic else ''}")
                if bad:
                    hit = True
                    open(os.path.join(d, "native_log.json"), "w").write(json.dumps(slog))
        res = native_logs(work, bench, driver, bits, d, [(1, 1), (2, 10), (4, 10)]) if not hit else []
        if res is None:
            return None
        for threads, log, panic in res:
            if log is None or panic:
                lines.append(f"threads={threads}: {panic}")
                if v["label"].endswith("no-panic") or (panic and "timeout" not in str(panic)):
                    hit = True
                continue
            bad = [(l, dt) for (l, ok, dt) in MPL.judge(bench, log, acyclic=job["params"].get("acyclic", True)) if not ok and l.startswith(prop)]
            lines.append(f"threads={threads}: {len(bad)} violated obligation(s){': ' + bad[0][0] + ' — ' + bad[0][1] if bad else ''}")
            if bad:
                hit = True
                open(os.path.join(d, "native_log.json"), "w").write(json.dumps(log))
        open(os.path.join(d, "native_trace.txt"), "w").write("\n".join(lines) + "\n")
        open(os.path.join(d, "README.txt"), "w").write(
            f"Counterexample for {prop} ({v['label']}): {v['detail']}\nBench and driver: counterexample.json (witness); the symbolic run's observation log is "
            f"witness.log.\nNative replay: the same bench through the public API (harness/native/verif_bench.rs) on 1, 2 and 4 worker threads, judged by the same "
            f"oracle (vlib/msgplane.py: judge); see native_trace.txt.\nRe-run: ./check {prop} --replay {d}\n")
        return hit
    return _native


def run(prop, tier, labels, only=None):
    ev = C.Evidence(prop, tier)
    ev.cov["source_sha256"] = C.source_hashes(FILES)
    jobs = []
    names = []
    for b in MPL.benches(tier):
        if prop in b["props"] and (not only or only in b["name"]):
            jobs.append(dict(scenario="scenario", params=dict(bench=b["bench"], driver=b["driver"], permute=b.get("permute", True), acyclic=True, name=b["name"]),
                             loop_bound=60, budget_s=1500 if tier == "quick" else 5000))
            names.append(b["name"])
    ev.cov["bounds"] = {"benches": names,
                        "schedules": "every order in which the executor model can pick a ready task (symbolic pick index decided by the solver), except "
                                     "benches marked FIFO; message data symbolic (filter connections accept on a data bit)",
                        "granularity": "task polls (await points)"}
    ev.cov["outside_claim"] = list(OUTSIDE)
    rc = SP.run(prop, tier, ev, "vlib.msgplane", jobs, native_replay=make_native(prop), only_labels=labels, work_key=f"mirse-{prop}")
    if rc == C.EXIT_OK and not only:
        # model validation on every run: symbolic log == log of the compiled crate polled in the same task order
        from vlib import drvprop as DP
        work = C.WorkDir(f"mirse-{prop}")
        try:
            mir, src_root, _ = DP.dump_mir(work)
            chosen = [b for b in MPL.benches(tier) if prop in b["props"]]
            chosen = chosen[:3] if tier == "quick" else chosen[:8]
            ok, total, notes = validate_models(work, mir, src_root, chosen, per_bench=2 if tier == "quick" else 4) if mir else (0, 1, ["MIR dump failed"])
        finally:
            work.close()
        ev.cov["traces_validated_against_impl"] = ok
        C.log(f"[{prop}] model validation: {ok}/{total} symbolic observation logs reproduced entry by entry by the compiled crate under the same task schedule")
        if ok != total:
            for n in notes[:4]:
                C.log(f"[{prop}]   {n}")
            ev.notes.append(f"model validation mismatch: {notes[:2]}")
            rc = C.EXIT_INCONCLUSIVE
    return ev, rc


def replay(prop, path):
    ce = json.load(open(os.path.join(path, "counterexample.json")))
    work = C.WorkDir(f"mirse-{prop}")
    try:
        ok = make_native(prop)(work, dict(params=ce["params"]), dict(witness=ce["witness"], vals=ce["values"], label=ce["obligation"], detail=ce["detail"]), path)
        if ok:
            C.log(f"VIOLATION property={prop} replay={path}")
            return C.EXIT_VIOLATION
        return C.EXIT_OK if ok is False else C.EXIT_INCONCLUSIVE
    finally:
        work.close()
