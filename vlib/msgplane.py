"""Message-plane scenarios (C02, C03, C12 wake-ups, C14, C16): benches of scripted models on the real ports / channel /
model-task code (vlib/mirse/taskworld.py), the oracle that judges an observation log (symbolic paths and native runs
alike) and the native replay through the public API (harness/native/verif_bench.rs)."""
import json
import os
import subprocess

import z3

from vlib import common as C
from vlib.mirse.interp import RustPanic, Unsupported
from vlib.mirse.models import Models
from vlib.mirse.taskworld import TaskWorld
from vlib.mirse.values import B


def make_models():
    return Models()


# ------------------------------------------------------------------------------------------------ oracle


def expected_deliveries(bench, via, filters, mid, connected=None, at=None):
    """list of (model, port, kind) that must process message `mid` sent through `via`; `connected[(key, ci)]` is the log
    index at which a late connection was added (it serves the sends that begin afterwards)"""
    if via[0] == "direct":
        return [(via[1], via[2], "handler")]
    conns = bench["outputs" if via[0] == "output" else "requestors"][via[1]]
    out = []
    for ci, c in enumerate(conns):
        if c.get("late"):
            since = (connected or {}).get((via[1], ci))
            if since is None or at is None or at < since:
                continue
        if c.get("kind", "plain") == "filter":
            keep = filters.get((f"{via[1]}#{ci}", mid))
            if keep is None:
                out.append((c["to"], c.get("port", 0), "unknown"))
                continue
            if not keep:
                continue
        out.append((c["to"], c.get("port", 0), "handler" if via[0] == "output" else "replier"))
    return out


def qualified_name(bench, i):
    m = bench["models"][i]
    nm = m["name"] if m["name"] else "<unknown>"
    if m.get("parent") is None:
        return m["name"]
    return qualified_name(bench, m["parent"]) + "." + nm


def judge(bench, log, acyclic=True):
    """-> list of (label, ok: bool, detail).  Labels are prefixed with the property they belong to."""
    res = []
    sends, handles, handled_end, filters, inits, queries, connected = {}, [], {}, {}, [], [], {}
    cmds = []   # (name, begin idx, end idx, result)
    cur = None
    for idx, e in enumerate(log):
        k = e[0]
        if k == "send-begin":
            sends[e[1]] = dict(ctx=tuple(e[2]), via=tuple(e[3]), begin=idx, end=None)
        elif k in ("send-end", "query-end", "query-first-end"):
            sends[e[1]]["end"] = idx
            if k != "send-end":
                queries.append((e[1], tuple(e[2]), tuple(e[3]), idx, k == "query-first-end"))
        elif k == "connect":
            connected[(e[1], e[2])] = idx
        elif k == "handle":
            handles.append(dict(model=e[1], port=e[2], mid=e[3], hid=e[4], kind=e[5], idx=idx))
        elif k == "handled":
            handled_end[e[1]] = idx
        elif k == "filter":
            filters[(e[1], e[2])] = e[3]
        elif k == "init":
            inits.append((e[1], e[2], idx, e[3] if len(e) > 3 else None))
        elif k == "cmd-begin":
            cur = [e[1], idx, None, None]
        elif k == "cmd-end":
            cur[2], cur[3] = idx, tuple(e[2])
            cmds.append(tuple(cur))
            cur = None
    n = len(bench["models"])
    # ---- C16: init exactly once, inside the init command, before the model handles anything
    initcmd = [c for c in cmds if c[0] == "init"]
    for i in range(n):
        mine = [x for x in inits if x[0] == i]
        res.append(("C16:init-exactly-once", len(mine) == 1, f"model {i} ({bench['models'][i]['name']}): init ran {len(mine)} time(s)"))
        if mine and mine[0][3] is not None:
            res.append(("C16:context-name-is-qualified", mine[0][3] == qualified_name(bench, i),
                        f"model {i} sees the name {mine[0][3]!r} in its context, expected {qualified_name(bench, i)!r}"))
        if mine and initcmd:
            res.append(("C16:init-during-SimInit-init", initcmd[0][1] < mine[0][2] < initcmd[0][2], f"model {i}: init outside SimInit::init"))
        first = [h for h in handles if h["model"] == i]
        if mine and first:
            res.append(("C16:init-before-messages", mine[0][2] < first[0]["idx"], f"model {i} processed message {first[0]['mid']} before its init"))
    # ---- run results: on an acyclic bench no command may stall
    for name, b, e, r in cmds:
        if not acyclic:
            continue
        if r == ("Ok",):
            res.append(("C12:waiters-are-resumed", True, ""))
            res.append(("C06:no-false-report", True, ""))
            continue
        # the command failed on a bench that cannot dead-lock: either every message was in fact processed (a false
        # Deadlock / MessageLoss report: C06) or some task waiting for space / for a message was never resumed (C12)
        complete = True
        for mid, s in sends.items():
            if s["begin"] > e:
                continue
            exp = expected_deliveries(bench, s["via"], filters, mid, connected, s["begin"])
            got = [(h["model"], h["port"]) for h in handles if h["mid"] == mid and h["idx"] < e and h["hid"] in handled_end]
            if any(x[2] == "unknown" for x in exp) or sorted(got) != sorted((x[0], x[1]) for x in exp):
                complete = False
        if complete:
            res.append(("C06:no-false-report", False, f"command {name}: every message that was sent has been processed, yet the run was reported as {r}"))
        else:
            res.append(("C12:waiters-are-resumed", False, f"command {name} on an acyclic bench ended with {r}: a task waiting for space / for a message was never resumed"))
    # ---- C03: exactly-once delivery, judged at the end of every command that returned Ok
    for name, b, e, r in cmds:
        if r != ("Ok",):
            continue
        for mid, s in sends.items():
            if s["begin"] > e:
                continue
            exp = expected_deliveries(bench, s["via"], filters, mid, connected, s["begin"])
            if any(x[2] == "unknown" for x in exp):
                # the filter closure was never evaluated for this message: the connection was skipped altogether
                res.append(("C03:every-connection-sees-the-message", False, f"message {mid} via {s['via']}: a filtered connection never evaluated its filter"))
                continue
            got = [(h["model"], h["port"]) for h in handles if h["mid"] == mid and h["idx"] < e]
            want = [(x[0], x[1]) for x in exp]
            res.append(("C03:processed-exactly-once", sorted(got) == sorted(want),
                        f"after command {name} (Ok): message {mid} sent via {s['via']} was processed by {sorted(got)} but its connections accept it for {sorted(want)}"))
            for h in handles:
                if h["mid"] == mid and h["idx"] < e:
                    res.append(("C03:handler-ran-to-completion", h["hid"] in handled_end and handled_end[h["hid"]] < e,
                                f"handler of message {mid} in model {h['model']} was not finished when command {name} returned Ok"))
    known = set(sends)
    for h in handles:
        res.append(("C03:nothing-invented", h["mid"] in known, f"model {h['model']} processed message {h['mid']} that nobody sent"))
    # ---- C02: causal order
    # events are *deliveries* (message, recipient model): the deliveries of one broadcast are mutually unordered.
    #   po   : every delivery of a completed port operation -> every delivery of a later operation of the same handler
    #   s->p : delivery (m, j) -> every delivery of the operations performed by the handler of j that processes m
    deliv = {}
    for mid, s in sends.items():
        deliv[mid] = sorted({x[0] for x in expected_deliveries(bench, s["via"], filters, mid, connected, s["begin"])} | {h["model"] for h in handles if h["mid"] == mid})
    nodes = [(mid, j) for mid in sorted(deliv) for j in deliv[mid]]
    hb = {a: set() for a in nodes}
    by_hid = {}
    for h in handles:
        by_hid.setdefault(h["hid"], h)
    for a in sorted(sends):
        for b_ in sorted(sends):
            if a == b_:
                continue
            sa, sb = sends[a], sends[b_]
            if sa["ctx"] == sb["ctx"] and sa["end"] is not None and sa["end"] < sb["begin"]:
                for ja in deliv[a]:
                    for jb in deliv[b_]:
                        hb[(a, ja)].add((b_, jb))
            if sb["ctx"][0] == "h":
                h = by_hid.get(sb["ctx"][1])
                if h is not None and h["mid"] == a and (a, h["model"]) in hb:
                    for jb in deliv[b_]:
                        hb[(a, h["model"])].add((b_, jb))
    changed = True
    while changed:
        changed = False
        for a in nodes:
            for b_ in list(hb[a]):
                for c in hb[b_]:
                    if c not in hb[a]:
                        hb[a].add(c)
                        changed = True
    for i in range(n):
        seq = [h for h in handles if h["model"] == i]
        for x in range(len(seq)):
            for y in range(x + 1, len(seq)):
                m1, m2 = seq[x]["mid"], seq[y]["mid"]
                if (m1, i) in hb and (m2, i) in hb:
                    res.append(("C02:causal-order", (m1, i) not in hb[(m2, i)],
                                f"model {i} ({bench['models'][i]['name']}) processed message {m1} before message {m2}, but the sending of {m2} to it happens before the sending of {m1}"))
    # ---- C14: a query whose command ran to quiescence has returned
    for name, b, e, r in cmds:
        for mid, s in sends.items():
            if s["via"][0] == "requestor" and b < s["begin"] < e:
                res.append(("C14:query-returns", s["end"] is not None and s["end"] < e,
                            f"query {mid} via {s['via']} had not returned when command {name} ended ({r}) although nothing was left to run"))
    # ---- C14: one reply per accepting replier, in connection order, only after all repliers are done
    for mid, ctx, replies, idx, first_only in queries:
        exp = expected_deliveries(bench, sends[mid]["via"], filters, mid, connected, sends[mid]["begin"])
        want = tuple(1000 * (x[0] + 1) + mid for x in exp)
        if first_only:
            want = want[:1]
        res.append(("C14:replies-match-connections-in-order", tuple(replies) == want, f"query {mid}: replies {replies}, expected {want} (connection order)"))
        for h in handles:
            if h["mid"] == mid and h["kind"] == "replier":
                res.append(("C14:returns-after-all-replied", h["hid"] in handled_end and handled_end[h["hid"]] < idx,
                            f"query {mid} returned before the replier of model {h['model']} had finished"))
    return res


# ------------------------------------------------------------------------------------------------ scenario


def scenario(it, params):
    bench = params["bench"]
    it.env["witness"] = dict(bench=bench, driver=params["driver"])
    w = TaskWorld(it, bench, permute=params.get("permute", True), max_polls=params.get("max_polls", 300))
    if w.sim_cell is not None:
        for k, cmd in enumerate(params["driver"]):
            if cmd[0] == "connect":
                w.connect_late(cmd[1], cmd[2], cmd[3])
                continue
            d = w.process_event(k + 1, cmd[0], cmd[1])
            if d != ("Ok",):
                break
    it.env["witness"]["log"] = [list(map(_j, e)) for e in w.log]
    for label, ok, detail in judge(bench, w.log, acyclic=params.get("acyclic", True)):
        it.check(B(bool(ok)), label, detail)


def _j(x):
    if isinstance(x, tuple):
        return [_j(y) for y in x]
    return x


def on_path_end(it, exc):
    """a panic inside the message plane (unwrap on None, `unreachable!`, index out of bounds ...)"""
    from vlib.mirse.interp import LoopBound, Violation
    kind = "C03:no-panic"
    vals = it.model_values() or {}
    v = Violation(kind, vals, list(it.trace), f"{type(exc).__name__}: {exc}")
    v.witness = it.env.get("witness")
    it.violations.append(v)


# ------------------------------------------------------------------------------------------------ bench families


def M(name, cap=1):
    return dict(name=name, cap=cap)


def benches(tier):
    """list of dict(name, bench, driver, props=[...])"""
    out = []
    q = tier == "quick"
    # 1. the canonical causal triangle: A sends M1 to B then M2 to C; C, processing M2, sends M3 to B
    for cap in ((1,) if q else (1, 2)):
        out.append(dict(name=f"triangle-cap{cap}", props=["C02", "C03", "C12", "C16"],
                        bench=dict(models=[M("A", cap), M("B", cap), M("C", cap)],
                                   outputs={"0.0": [dict(to=1)], "0.1": [dict(to=2)], "2.0": [dict(to=1)]},
                                   handlers={"0.0": [["send", 0], ["send", 1]], "2.0": [["send", 0]], "1.0": []}),
                        driver=[[0, 0]]))
    # 2. triangle with a saturated recipient: A sends two messages to B (capacity 1) before M2 to C
    out.append(dict(name="triangle-saturated", props=["C02", "C03", "C12"],
                    bench=dict(models=[M("A"), M("B"), M("C")],
                               outputs={"0.0": [dict(to=1)], "0.1": [dict(to=2)], "2.0": [dict(to=1)]},
                               handlers={"0.0": [["send", 0], ["send", 0], ["send", 1]], "2.0": [["send", 0]], "1.0": []}),
                    driver=[[0, 0]]))
    # 3. broadcast fan-out: one output of A feeds B and C; C forwards to B
    out.append(dict(name="fanout-forward", props=["C02", "C03", "C12"],
                    bench=dict(models=[M("A"), M("B"), M("C")],
                               outputs={"0.0": [dict(to=2), dict(to=1)], "2.0": [dict(to=1)]},
                               handlers={"0.0": [["send", 0], ["send", 0]], "2.0": [["send", 0]], "1.0": []}),
                    driver=[[0, 0]]))
    # 4. two producers into one capacity-1 mailbox, both suspended, three messages each
    out.append(dict(name="two-producers", props=["C02", "C03", "C12"],
                    bench=dict(models=[M("P"), M("Q"), M("B")],
                               outputs={"0.0": [dict(to=2)], "1.0": [dict(to=2)]},
                               handlers={"0.0": [["send", 0], ["send", 0], ["send", 0]], "1.0": [["send", 0], ["send", 0]], "2.0": []}),
                    driver=[[0, 0], [1, 0]] if q else [[0, 0], [1, 0], [0, 0]]))
    # 5. a source fans out to both producers, which then compete for B (senders suspended on a full mailbox while the
    #    broadcast is still in progress)
    out.append(dict(name="diamond", props=["C02", "C03", "C12"],
                    bench=dict(models=[M("S"), M("P"), M("Q"), M("B")],
                               outputs={"0.0": [dict(to=1), dict(to=2)], "1.0": [dict(to=3)], "2.0": [dict(to=3)]},
                               handlers={"0.0": [["send", 0]], "1.0": [["send", 0], ["send", 0]], "2.0": [["send", 0], ["send", 0]], "3.0": []}),
                    driver=[[0, 0]]))
    if not q:
        # thorough only: a 4-stage pipeline under back-pressure (capacity 1 everywhere, three items), the diamond with
        # three messages per producer, and the saturated triangle with capacity 2 and a second driver command
        out.append(dict(name="pipeline-4", props=["C02", "C03", "C12"],
                        bench=dict(models=[M("A"), M("B"), M("C"), M("D")],
                                   outputs={"0.0": [dict(to=1)], "1.0": [dict(to=2)], "2.0": [dict(to=3)]},
                                   handlers={"0.0": [["send", 0], ["send", 0]], "1.0": [["send", 0]], "2.0": [["send", 0]], "3.0": []}),
                        driver=[[0, 0]]))
        out.append(dict(name="diamond-3", props=["C02", "C03", "C12"],
                        bench=dict(models=[M("S"), M("P"), M("Q"), M("B")],
                                   outputs={"0.0": [dict(to=1), dict(to=2)], "1.0": [dict(to=3)], "2.0": [dict(to=3)]},
                                   handlers={"0.0": [["send", 0]], "1.0": [["send", 0], ["send", 0], ["send", 0]], "2.0": [["send", 0], ["send", 0]], "3.0": []}),
                        driver=[[0, 0]]))
        out.append(dict(name="triangle-saturated-cap2", props=["C02", "C03", "C12"],
                        bench=dict(models=[M("A", 2), M("B", 2), M("C", 2)],
                                   outputs={"0.0": [dict(to=1)], "0.1": [dict(to=2)], "2.0": [dict(to=1)]},
                                   handlers={"0.0": [["send", 0], ["send", 0], ["send", 0], ["send", 1]], "2.0": [["send", 0]], "1.0": []}),
                        driver=[[0, 0], [0, 0]]))
    # 5b. the handler of a received message depends on a sender that is blocked on the same mailbox: P sends twice to B
    #     (capacity 1) and B, handling the first message, queries P - P can only reply once its blocked send got the slot
    out.append(dict(name="handler-needs-blocked-sender", props=["C12", "C03", "C02"],
                    bench=dict(models=[M("P"), M("B")],
                               outputs={"0.0": [dict(to=1)]}, requestors={"1.0": [dict(to=0, port=1)]},
                               handlers={"0.0": [["send", 0], ["send", 0]], "1.0": [["query", 0]], "0.1": []}),
                    driver=[[0, 0]]))
    # 6. plain + map + filter connections, two ports on the recipient, volume above capacity
    out.append(dict(name="map-filter", props=["C03"],
                    bench=dict(models=[M("A"), M("B"), M("C", 2)],
                               outputs={"0.0": [dict(to=1), dict(to=2, kind="map"), dict(to=1, port=1, kind="filter")]},
                               handlers={"0.0": [["send", 0], ["send", 0]], "1.0": [], "1.1": [], "2.0": []}),
                    driver=[[0, 0]]))
    #    the same connections under volume, with the executor picking tasks in FIFO order only
    out.append(dict(name="map-filter-volume", props=["C03", "C12"], permute=False,
                    bench=dict(models=[M("A"), M("B"), M("C", 2)],
                               outputs={"0.0": [dict(to=1), dict(to=2, kind="map"), dict(to=1, port=1, kind="filter"), dict(to=2, kind="filter")]},
                               handlers={"0.0": [["send", 0], ["send", 0], ["send", 0], ["send", 0]], "1.0": [], "1.1": [], "2.0": []}),
                    driver=[[0, 0], [0, 0]]))
    # 7. an output whose every connection filters (the broadcast may have 0, 1 or 2 futures)
    out.append(dict(name="all-filtered", props=["C03"],
                    bench=dict(models=[M("A"), M("B"), M("C")],
                               outputs={"0.0": [dict(to=1, kind="filter"), dict(to=2, kind="filter")]},
                               handlers={"0.0": [["send", 0], ["send", 0]], "1.0": [], "2.0": []}),
                    driver=[[0, 0]]))
    # 8. init scripts that send to models that are not initialised yet; driver events afterwards
    out.append(dict(name="init-sends", props=["C16", "C03", "C02"],
                    bench=dict(models=[M("A"), M("B"), M("C")],
                               outputs={"0.0": [dict(to=1), dict(to=2)], "2.0": [dict(to=1)], "1.0": [dict(to=0)]},
                               init={"0": [["send", 0], ["send", 0]], "2": [["send", 0]]},
                               handlers={"0.0": [], "1.0": [], "2.0": [["send", 0]]}),
                    driver=[[1, 0]]))
    # 8b. hierarchies: sub-models added while their parent is built (depth 2, an unnamed child), init scripts of
    #     sub-models that send to models spawned later, messages that reach a sub-model before its init
    out.append(dict(name="hierarchy-init", props=["C16", "C03", "C02"],
                    bench=dict(models=[M("root"), dict(name="kid", cap=1, parent=0), dict(name="", cap=1, parent=1), M("other")],
                               outputs={"1.0": [dict(to=3)], "3.0": [dict(to=2)]},
                               init={"1": [["send", 0]]},
                               handlers={"0.0": [], "1.0": [], "2.0": [], "3.0": [["send", 0]]}),
                    driver=[[3, 0]]))
    # 9. queries: 0..3 repliers, filtered subsets, repliers that yield (arbitrary completion orders), a replier that sends
    for nrep in ((0, 2) if q else (0, 1, 2, 3)):
        reps = [dict(to=1 + r, kind=("filter" if r % 2 == 1 else "plain")) for r in range(nrep)]
        models = [M("R")] + [M(f"S{r}") for r in range(nrep)]
        handlers = {"0.0": [["query", 0], ["query", 0]] if nrep in (1, 2) else [["query", 0]]}
        for r in range(nrep):
            handlers[f"{1 + r}.0"] = [["yield"]] if r % 2 == 0 else []
        out.append(dict(name=f"query-{nrep}", props=["C14", "C03"],
                        bench=dict(models=models, requestors={"0.0": reps}, handlers=handlers), driver=[[0, 0]]))
    # 9b. the reply iterator of a query is only partly consumed before the next query
    out.append(dict(name="query-partial", props=["C14", "C03"],
                    bench=dict(models=[M("R"), M("S0"), M("S1")], requestors={"0.0": [dict(to=1), dict(to=2)]},
                               handlers={"0.0": [["query-first", 0], ["query", 0]], "1.0": [], "2.0": []}), driver=[[0, 0]] if q else [[0, 0], [0, 0]]))
    # 9b'. a query awaited inside a join with a yielding future / with another query: the broadcast future is re-polled
    #      although none of its sub-tasks was woken (spurious polls, wake-up bookkeeping of TaskSet)
    out.append(dict(name="query-joined", props=["C14", "C03"],
                    bench=dict(models=[M("R"), M("S0"), M("S1")],
                               requestors={"0.0": [dict(to=1), dict(to=2)], "0.1": [dict(to=2, port=1), dict(to=1, port=1)]},
                               handlers={"0.0": [["join", ["query", 0], ["yield"]]] + ([] if q else [["join", ["query", 0], ["query", 1]]]),
                                         "1.0": [], "2.0": [], "1.1": [], "2.1": []}), driver=[[0, 0]]))
    # 9c. port clones share one connection list: the model holds a clone made before / after the connections were added
    #     through the original, and a connection is added later through yet another clone, after a first send
    for how in ("clone-before", "clone-after"):
        out.append(dict(name=f"shared-links-{how}", props=["C14", "C03"],
                        bench=dict(models=[M("A"), M("B"), M("C"), M("R")],
                                   outputs={"0.0": [dict(to=1), dict(to=2, late=True)]},
                                   requestors={"3.0": [dict(to=1, port=1), dict(to=2, port=1, late=True)]},
                                   handles={"0.0": how, "3.0": how},
                                   handlers={"0.0": [["send", 0]], "3.0": [["query", 0]], "1.0": [], "2.0": [], "1.1": [], "2.1": []}),
                        driver=[[0, 0], [3, 0], ["connect", "Output", "0.0", 1], ["connect", "Requestor", "3.0", 1], [0, 0], [3, 0]]))
    # 10. a query whose repliers send events to a shared sink model while the requestor waits
    out.append(dict(name="query-with-sends", props=["C14", "C02"] + ([] if q else ["C03", "C12"]),
                    bench=dict(models=[M("R"), M("S0"), M("S1"), M("K")],
                               requestors={"0.0": [dict(to=1), dict(to=2)]},
                               outputs={"1.0": [dict(to=3)], "2.0": [dict(to=3)], "0.1": [dict(to=3)]},
                               handlers={"0.0": [["query", 0], ["send", 1]], "1.0": [["send", 0]], "2.0": [["send", 0], ["yield"]], "3.0": []}),
                    driver=[[0, 0]]))
    return out
