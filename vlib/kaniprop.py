"""Common driver for the properties decided by E1 (Kani/CBMC)."""
import os
import time

from . import common as C
from . import kanirun as K


def run_kani_property(prop, tier, ev, *, modules, harnesses, generated=None, appends=None, stubbing=False,
                      jobs=12, harness_timeout_s=300, mem_gb=14, role_of=None, describe=None, work_key=None, module_of=None,
                      batch=None):
    """harnesses: list of harness short names.  Returns (exit_code, results dict).
    role_of(name) -> role string used to match known findings; describe(name) -> sample dict."""
    work = C.WorkDir(work_key or f"kani-{prop}")
    try:
        try:
            crate = K.prepare_overlay(work, modules, generated=generated, appends=appends)
        except FileNotFoundError as e:
            C.log(f"INCONCLUSIVE property={prop} build: {e}")
            ev.notes.append(f"overlay: {e}")
            ev.write("inconclusive: overlay could not be prepared")
            return C.EXIT_INCONCLUSIVE, {}
        results = {}
        batches = [harnesses] if not batch else [harnesses[i:i + batch] for i in range(0, len(harnesses), batch)]
        build_failed = False
        for bi, names in enumerate(batches):
            res, bf, rc, wall, out = K.run_harnesses(work, crate, names, jobs=jobs, harness_timeout_s=harness_timeout_s,
                                                     mem_gb=mem_gb, stubbing=stubbing, log_name=f"kani-{bi}.log")
            results.update(res)
            if bf:
                build_failed = True
                tail = "\n".join(l for l in out.splitlines() if l.startswith("error") or "-->" in l)[:3000]
                C.log(tail)
                break
        ev.cov["engines"].append("kani 0.68 / cbmc 6.11 (cadical)")
        if build_failed:
            C.log(f"INCONCLUSIVE property={prop} build: the harness overlay does not compile against the current tree")
            ev.write("inconclusive: overlay build failed")
            return C.EXIT_INCONCLUSIVE, results

        n_ok = 0
        violations = []
        inconclusive = []
        for name in harnesses:
            r = results.get(name) or K.HarnessResult(name)
            ev.cov["obligations"] += 1
            ev.cov["queries"] += 1
            ev.cov["solver_time_s"] += r.time_s
            ev.cov["transitions"] += r.checks_total
            ev.cov["states"] += 1
            if r.status == "SUCCESS":
                n_ok += 1
                ev.cov["discharged"] += 1
                if describe:
                    ev.add_sample(dict(describe(name), **r.to_json()))
                else:
                    ev.add_sample(r.to_json())
                if r.covers_total:
                    ev.cov["vacuity_witnesses"].append(f"{name}: {r.covers_sat}/{r.covers_total} cover properties satisfied")
            elif r.status == "FAILED":
                violations.append(r)
            else:
                inconclusive.append(r)

        rc = C.EXIT_OK
        replayed_roles = set()
        for r in violations:
            role = role_of(r.name) if role_of else r.name
            if role in replayed_roles:
                C.log(f"[{prop}] harness {r.name} FAILED as well ({r.failed_checks[:2]}); same role '{role}' already replayed")
                ev.notes.append(f"also failed (not replayed separately): {r.name}")
                continue
            kf = C.known_finding_for(prop, role)
            C.log(f"[{prop}] harness {r.name} FAILED: {r.failed_checks[:3]}")
            reproduced, art = K.playback(work, crate, r.name, module_of(r.name) if module_of else modules[0], stubbing=stubbing)
            if reproduced:
                replayed_roles.add(role)
                d = K.save_replay(prop, r.name, work, crate, art, extra="failed checks: " + "; ".join(r.failed_checks[:6]), appends=appends)
                if kf:
                    C.log(f"KNOWN-FINDING: property={prop} {kf.get('what', role)}")
                    ev.notes.append(f"known finding reproduced: {role}")
                else:
                    ev.violations += 1
                    C.log(f"VIOLATION property={prop} replay={d}")
                    rc = C.EXIT_VIOLATION
            else:
                C.log(f"INCONCLUSIVE property={prop} harness {r.name}: solver counterexample did not replay natively "
                      f"(reproduced={reproduced}); artefacts {art}")
                ev.notes.append(f"non-reproducing counterexample: {r.name} {r.failed_checks[:3]}")
                if rc == C.EXIT_OK:
                    rc = C.EXIT_INCONCLUSIVE
        for r in inconclusive:
            C.log(f"[{prop}] harness {r.name}: {r.status} (not counted as success)")
            ev.notes.append(f"{r.name}: {r.status}")
            if rc == C.EXIT_OK:
                rc = C.EXIT_INCONCLUSIVE
        C.log(f"[{prop}] kani: {n_ok}/{len(harnesses)} harnesses verified, {len(violations)} failed, {len(inconclusive)} inconclusive")
        return rc, results
    finally:
        work.close()
