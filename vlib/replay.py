"""Replay of stored counterexamples."""
import os
import re
import shutil

from . import common as C


def replay_kani(prop, path):
    """path: a directory written by kanirun.save_replay (harness module sources incl. generated playback tests)."""
    if not os.path.isdir(path):
        C.log(f"no such replay directory: {path}")
        return C.EXIT_INCONCLUSIVE
    work = C.WorkDir(f"replay-{prop}")
    try:
        crate = work.sync_overlay("ov")
        vk = os.path.join(crate, "src", "verif_kani")
        os.makedirs(vk, exist_ok=True)
        tests = []
        for fn in os.listdir(path):
            if fn.endswith(".rs"):
                shutil.copy(os.path.join(path, fn), os.path.join(vk, fn))
                tests += re.findall(r"fn (kani_concrete_playback_\w+)", open(os.path.join(path, fn)).read())
        with open(os.path.join(crate, "src", "lib.rs"), "a") as f:
            f.write("\n#[cfg(kani)]\nmod verif_kani;\n")
        appends = os.path.join(path, "appends.json")
        if os.path.exists(appends):
            import json
            for rel, text in json.load(open(appends)).items():
                with open(os.path.join(crate, rel), "a") as f:
                    f.write("\n" + text + "\n")
        env = C.env_offline({"CARGO_TARGET_DIR": work.sub("playback-target")})
        rc, out = C.run(["cargo", "kani", "playback", "-Z", "concrete-playback", "--", "kani_concrete_playback_"],
                        cwd=crate, env=env, timeout=1200, log_path=work.sub("replay.log"))
        print(out[-3000:])
        from .kanirun import native_verdict
        v = native_verdict(out)
        if v is True:
            C.log(f"VIOLATION property={prop} replay={path}")
            return C.EXIT_VIOLATION
        if v is False:
            C.log(f"replay of {path}: the stored counterexample does not fail on the current tree")
            return C.EXIT_OK
        return C.EXIT_INCONCLUSIVE
    finally:
        work.close()
