"""Runner for E2 properties whose scenario is a python function driving the MIR interpreter directly
(sinks, queues, priority queues, registration, ...).  Each property module provides:
    scenario(it, params)            -- runs on one path; records obligations with it.check(); may fill it.env['witness']
    native_replay(work, viol)       -- optional: returns True (reproduced), False, or None (cannot replay)
"""
import importlib
import json
import multiprocessing as mp
import os
import time
import traceback

from . import common as C
from . import drvprop as DP

_G = {}


def _init(mir, src_root):
    from .mirse import interp as IN
    _G["P"] = IN.Program(mir, src_root)


def _run_job(job):
    from .mirse import interp as IN
    from .mirse.models import Models
    mod = importlib.import_module(job["module"])
    P = _G["P"]
    res = dict(job=job, violations=[], error=None)
    witnesses = []

    def scen(it):
        getattr(mod, job.get("scenario", "scenario"))(it, job["params"])
        if it.violations:
            for v in it.violations:
                v.witness = it.env.get("witness")

    models_factory = getattr(mod, "make_models", Models)
    ex = IN.Explorer(P, models_factory, loop_bound=job.get("loop_bound", 16), max_paths=job.get("max_paths", 200000),
                     budget_s=job.get("budget_s", 900))
    t0 = time.time()
    try:
        viol, outcomes = ex.explore(scen, on_path_end=getattr(mod, "on_path_end", None))
        res["outcomes"] = dict(outcomes)
        per_label = {}
        for v in viol:
            per_label.setdefault(v.label, 0)
            if per_label[v.label] >= 3:
                continue
            per_label[v.label] += 1
            res["violations"].append(dict(label=v.label, detail=v.detail, vals={k: (int(x) if not isinstance(x, bool) else x) for k, x in v.model_vals.items()},
                                          witness=getattr(v, "witness", None)))
    except IN.Unsupported as e:
        res["error"] = f"unsupported: {e}"
    except Exception as e:
        res["error"] = f"internal: {e}\n{traceback.format_exc()[-2000:]}"
    st = ex.stats
    res["stats"] = dict(paths=st.paths, steps=st.steps, queries=st.queries, solver_s=st.solver_s, obligations=st.obligations,
                        discharged=st.discharged, funcs=dict(st.funcs), models=dict(st.models), wall=time.time() - t0)
    return res


def run(prop, tier, ev, module, jobs, *, nproc=14, native_replay=None, describe=None, only_labels=None, work_key=None):
    """jobs: list of dict(params=..., [scenario=..]).  only_labels: tuple of label prefixes judged for this property
    (a scenario shared between properties labels each obligation with the property it belongs to). Returns exit code."""
    work = C.WorkDir(work_key or f"mirse-{prop}")
    try:
        mir, src_root, mir_s = DP.dump_mir(work)
        if not mir:
            C.log(f"INCONCLUSIVE property={prop} build: MIR dump of the current tree failed (see {work.sub('mir.err')})")
            ev.write("inconclusive: MIR dump failed")
            return C.EXIT_INCONCLUSIVE
        ev.cov["engines"].append("mirse (MIR symbolic executor, z3 %s)" % DP._z3ver())
        for j in jobs:
            j.setdefault("module", module)
        t0 = time.time()
        with mp.Pool(nproc, initializer=_init, initargs=(mir, src_root)) as pool:
            results = pool.map(_run_job, jobs, chunksize=1)
        explore_s = time.time() - t0
        all_funcs, all_models, by_label, errors = {}, {}, {}, []
        for r in results:
            st = r["stats"]
            ev.cov["states"] += st["paths"]
            ev.cov["transitions"] += st["steps"]
            ev.cov["queries"] += st["queries"]
            ev.cov["solver_time_s"] += st["solver_s"]
            ev.cov["obligations"] += st["obligations"]
            ev.cov["discharged"] += st["discharged"]
            for k, v in st["funcs"].items():
                all_funcs[k] = all_funcs.get(k, 0) + v
            for k, v in st["models"].items():
                all_models[k] = all_models.get(k, 0) + v
            if r["error"]:
                errors.append(r)
            for v in r["violations"]:
                if only_labels and not v["label"].startswith(tuple(only_labels)):
                    continue
                by_label.setdefault(v["label"], []).append((r["job"], v))
            if not r["error"] and not r["violations"]:
                ev.add_sample(dict(scenario=r["job"].get("scenario", "scenario"), params=r["job"]["params"], paths=st["paths"],
                                   obligations=st["obligations"], discharged=st["discharged"], solver_s=round(st["solver_s"], 3)))
        ev.cov["functions_encoded"] = sorted(k for k in all_funcs if not k.endswith("]"))[:200]
        ev.cov["bounds"]["explore_wall_s"] = round(explore_s, 1)
        ev.cov["bounds"]["mir_dump_s"] = round(mir_s, 1)
        ev.assumptions += [f"model: {k} (used {v}x)" for k, v in sorted(all_models.items())]
        rc = C.EXIT_OK
        if errors:
            for r in errors[:5]:
                C.log(f"[{prop}] inconclusive job {r['job']['params']}: {r['error'][:600]}")
            ev.notes.append(f"{len(errors)} jobs inconclusive: {errors[0]['error'][:300]}")
            rc = C.EXIT_INCONCLUSIVE
        validated = 0
        for label, items in sorted(by_label.items()):
            kf = C.known_finding_for(prop, label)
            reproduced = None
            for job, v in items[:4]:
                d = C.replay_dir(prop, DP.script_hash(job["params"], v["witness"]) + "-" + label.split(":")[-1][:40])
                with open(os.path.join(d, "counterexample.json"), "w") as f:
                    json.dump(dict(property=prop, obligation=label, detail=v["detail"], params=job["params"], scenario=job.get("scenario"),
                                   values=v["vals"], witness=v["witness"]), f, indent=1, default=str)
                ok = native_replay(work, job, v, d) if native_replay else None
                if ok:
                    reproduced = (d, v)
                    break
            if reproduced:
                d, v = reproduced
                if kf:
                    C.log(f"KNOWN-FINDING: property={prop} {kf.get('what', label)}")
                    ev.notes.append(f"known finding reproduced: {label}")
                else:
                    ev.violations += 1
                    C.log(f"[{prop}] {label}: {v['detail']}  witness={v['witness']} values={ {k: x for k, x in v['vals'].items() if '!' not in k} }")
                    C.log(f"VIOLATION property={prop} replay={d}")
                    rc = C.EXIT_VIOLATION
            else:
                C.log(f"INCONCLUSIVE property={prop} obligation {label}: solver counterexample did not reproduce natively "
                      f"({items[0][1]['detail']}; witness {items[0][1]['witness']}; values {items[0][1]['vals']})")
                ev.notes.append(f"non-reproducing counterexample for {label}")
                if rc == C.EXIT_OK:
                    rc = C.EXIT_INCONCLUSIVE
        C.log(f"[{prop}] mirse: {len(jobs)} jobs, {ev.cov['states']} paths, {ev.cov['obligations']} obligations ({ev.cov['discharged']} discharged), "
              f"{len(by_label)} violated obligation kinds, {len(errors)} inconclusive jobs, explore {explore_s:.0f}s")
        return rc
    finally:
        work.close()


def build_native_test(work, test_name, src_path):
    """Build harness/native/<test_name>.rs as an integration test of the overlay; returns executable path or None."""
    import re
    import shutil
    crate = work.sync_overlay("ovn")
    shutil.copy(src_path, os.path.join(crate, "tests", test_name + ".rs"))
    rc, out = C.run(["cargo", "test", "--offline", "--test", test_name, "--no-run", "--target-dir", work.sub("native-target")],
                    cwd=crate, timeout=1500, log_path=work.sub(f"native-build-{test_name}.log"))
    m = re.findall(r"Executable tests/%s\.rs \(([^)]+)\)" % re.escape(test_name), out)
    if rc != 0 or not m:
        return None
    exe = m[-1]
    return exe if os.path.isabs(exe) else os.path.join(crate, exe)
