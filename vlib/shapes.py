"""Script shapes for the driver-logic properties. A shape fixes the commands; every number stays symbolic."""
import itertools

KINDS = ["once", "periodic", "keyed", "kperiodic"]


def S(kind, id, origin=0, dl="abs", effect=None, api="action"):
    return dict(op="sched", kind=kind, origin=origin, dl=dl, id=id, effect=effect, api=api)


STEP = dict(op="step")


def UNTIL(dl="abs"):
    return dict(op="until", dl=dl)


def CANCEL(k):
    return dict(op="cancel", key=k)


def DROPAUTO(k):
    return dict(op="dropauto", key=k)


def PROCESS(id):
    return dict(op="process", id=id, kind="once")


def job(script, **opts):
    return dict(script=[dict(c) for c in script], opts=opts)


def dedup(jobs):
    import json
    seen = set()
    out = []
    for j in jobs:
        k = json.dumps(j, sort_keys=True, default=str)
        if k not in seen:
            seen.add(k)
            out.append(j)
    return out


def steppers(n, dls=("abs", "rel")):
    """all sequences of n stepping commands over {step, until(abs), until(rel)}"""
    alpha = [STEP] + [UNTIL(d) for d in dls]
    return [list(x) for x in itertools.product(alpha, repeat=n)]
