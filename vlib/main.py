"""./check <ID> [--tier quick|thorough] [--replay PATH]"""
import argparse
import importlib
import os
import sys
import traceback

from . import common as C


def main():
    ap = argparse.ArgumentParser()
    ap.add_argument("prop")
    ap.add_argument("--tier", default=os.environ.get("VERIF_TIER", "quick"), choices=["quick", "thorough"])
    ap.add_argument("--replay", default=None)
    ap.add_argument("--only", default=None, help="debug: restrict to sub-checks whose name contains this")
    a = ap.parse_args()
    try:
        mod = importlib.import_module(f"props.{a.prop}")
    except ModuleNotFoundError:
        C.log(f"unknown property {a.prop}")
        sys.exit(C.EXIT_INCONCLUSIVE)
    try:
        if a.replay:
            rc = mod.replay(a.replay)
        else:
            rc = mod.run(a.tier, only=a.only)
    except SystemExit:
        raise
    except Exception:
        traceback.print_exc()
        C.log(f"INCONCLUSIVE property={a.prop} (internal error in the checking machinery)")
        rc = C.EXIT_INCONCLUSIVE
    sys.exit(rc)


if __name__ == "__main__":
    main()
