//! Native replay for C17: runs a script of sink operations through the public API of the real crate.
//! Script ($VERIF_SCRIPT): first line `buffer <cap> <open|closed>` or `slot <open|closed>`, then one op per line:
//! `w <u8>` (write through a writer clone), `n` (next), `o` (open), `c` (close). Prints `n Some(v)` / `n None` per read.
use nexosim::ports::{EventBuffer, EventSink, EventSinkStream, EventSinkWriter, EventSlot};

#[test]
fn verif_run_sink_script() {
    let path = match std::env::var("VERIF_SCRIPT") {
        Ok(p) => p,
        Err(_) => return,
    };
    let text = std::fs::read_to_string(path).unwrap();
    let mut lines = text.lines().filter(|l| !l.trim().is_empty());
    let head: Vec<&str> = lines.next().unwrap().split_whitespace().collect();
    println!("VERIF-TRACE-BEGIN");
    if head[0] == "buffer" {
        let cap: usize = head[1].parse().unwrap();
        let mut sink: EventBuffer<u8> = if head[2] == "open" { EventBuffer::with_capacity(cap) } else { EventBuffer::with_capacity_closed(cap) };
        let w = sink.writer();
        for l in lines {
            let t: Vec<&str> = l.split_whitespace().collect();
            match t[0] {
                "w" => w.clone().write(t[1].parse().unwrap()),
                "n" => println!("n {:?}", sink.next()),
                "o" => sink.open(),
                "c" => sink.close(),
                _ => panic!(),
            }
        }
    } else if head[0] == "bufferz" {
        // zero-sized events: only the NUMBER of retained events is observable
        let cap: usize = head[1].parse().unwrap();
        let mut sink: EventBuffer<()> = if head[2] == "open" { EventBuffer::with_capacity(cap) } else { EventBuffer::with_capacity_closed(cap) };
        let w = sink.writer();
        for l in lines {
            let t: Vec<&str> = l.split_whitespace().collect();
            match t[0] {
                "w" => w.clone().write(()),
                "n" => println!("n {}", if sink.next().is_some() { "Some(0)" } else { "None" }),
                "o" => sink.open(),
                "c" => sink.close(),
                _ => panic!(),
            }
        }
    } else {
        let mut sink: EventSlot<u8> = if head[1] == "open" { EventSlot::new() } else { EventSlot::new_closed() };
        let w = sink.writer();
        for l in lines {
            let t: Vec<&str> = l.split_whitespace().collect();
            match t[0] {
                "w" => w.clone().write(t[1].parse().unwrap()),
                "n" => println!("n {:?}", sink.next()),
                "o" => sink.open(),
                "c" => sink.close(),
                _ => panic!(),
            }
        }
    }
    println!("VERIF-TRACE-END");
}
