//! Native script runner (installed by the checks as `nexosim/tests/verif_runner.rs` in the scratch overlay).
//! Executes a driver script through the PUBLIC API of the real crate and prints the observation stream that the
//! Python oracle judges.  Used (a) to replay solver counterexamples and (b) to validate the MIR interpreter
//! (differential runs).  Script: file named by $VERIF_SCRIPT; threads: $VERIF_THREADS (default 1).
//! All times are total nanoseconds (i128): secs = floor(tot / 1e9), nanos = tot mod 1e9.
use std::collections::HashMap;
use std::sync::{Arc, Mutex};
use std::time::Duration;

use nexosim::model::{Context, Model};
use nexosim::ports::EventSource;
use nexosim::simulation::{ActionKey, Address, ExecutionError, Mailbox, SchedulingError, Scheduler, SimInit};
use nexosim::time::{Clock, MonotonicTime, SyncStatus};

const NANOS: i128 = 1_000_000_000;

fn to_time(tot: i128) -> MonotonicTime {
    let secs = tot.div_euclid(NANOS) as i64;
    let nanos = tot.rem_euclid(NANOS) as u32;
    MonotonicTime::new(secs, nanos).unwrap()
}
fn from_time(t: MonotonicTime) -> i128 {
    (t.as_secs() as i128) * NANOS + t.subsec_nanos() as i128
}
fn to_dur(tot: i128) -> Duration {
    Duration::new((tot / NANOS) as u64, (tot % NANOS) as u32)
}
fn from_dur(d: Duration) -> i128 {
    (d.as_secs() as i128) * NANOS + d.subsec_nanos() as i128
}

#[derive(Clone, Debug)]
enum Effect {
    None,
    Cancel(u64),
    Panic,
    Sched { kind: String, dl: String, d: i128, p: i128, id: u64, owner: usize },
}

#[derive(Clone)]
struct SchedReq {
    kind: String,
    dl: String,
    d: i128,
    p: i128,
    id: u64,
}

#[derive(Default)]
struct Shared {
    log: Mutex<Vec<String>>,
    effects: Mutex<HashMap<u64, Effect>>,
    keys: Mutex<HashMap<u64, ActionKey>>,
    last_sched: Mutex<Option<Result<(), SchedulingError>>>,
}
impl Shared {
    fn log(&self, s: String) {
        self.log.lock().unwrap().push(s);
    }
}

struct R {
    sh: Arc<Shared>,
}
impl R {
    fn sched(&mut self, req: &SchedReq, cx: &mut Context<Self>) -> Result<(), SchedulingError> {
        let id = req.id;
        macro_rules! go {
            ($dl:expr) => {
                match req.kind.as_str() {
                    "once" => cx.schedule_event($dl, Self::fire, id),
                    "periodic" => cx.schedule_periodic_event($dl, to_dur(req.p), Self::fire, id),
                    "keyed" => cx.schedule_keyed_event($dl, Self::fire, id).map(|k| {
                        self.sh.keys.lock().unwrap().insert(id, k);
                    }),
                    "kperiodic" => cx.schedule_keyed_periodic_event($dl, to_dur(req.p), Self::fire, id).map(|k| {
                        self.sh.keys.lock().unwrap().insert(id, k);
                    }),
                    _ => panic!("kind"),
                }
            };
        }
        if req.dl == "abs" {
            go!(to_time(req.d))
        } else {
            go!(to_dur(req.d))
        }
    }
    pub fn fire(&mut self, id: u64, cx: &mut Context<Self>) {
        self.sh.log(format!("fire {} {}", id, from_time(cx.time())));
        // the scripted effect of an action runs once (first occurrence only)
        let eff = self.sh.effects.lock().unwrap().remove(&id).unwrap_or(Effect::None);
        match eff {
            Effect::None => {}
            Effect::Cancel(k) => {
                if let Some(key) = self.sh.keys.lock().unwrap().get(&k).cloned() {
                    key.cancel();
                    self.sh.log(format!("ecancel {}", k));
                }
            }
            Effect::Panic => panic!("verif: scripted handler panic"),
            Effect::Sched { kind, dl, d, p, id, owner } => {
                let r = self.sched(&SchedReq { kind, dl, d, p, id }, cx);
                self.sh.log(format!("esched {} {}", owner, fmt_sched(&r)));
            }
        }
    }
    pub fn do_sched(&mut self, req: SchedReq, cx: &mut Context<Self>) {
        let r = self.sched(&req, cx);
        *self.sh.last_sched.lock().unwrap() = Some(r);
    }
}
impl Model for R {}

fn fmt_sched(r: &Result<(), SchedulingError>) -> String {
    match r {
        Ok(()) => "Ok".into(),
        Err(SchedulingError::InvalidScheduledTime) => "Err InvalidScheduledTime".into(),
        Err(SchedulingError::NullRepetitionPeriod) => "Err NullRepetitionPeriod".into(),
    }
}
fn fmt_exec(r: &Result<(), ExecutionError>) -> String {
    match r {
        Ok(()) => "Ok".into(),
        Err(e) => match e {
            ExecutionError::Terminated => "Err Terminated".into(),
            ExecutionError::Deadlock(v) => format!("Err Deadlock {:?}", v),
            ExecutionError::MessageLoss(n) => format!("Err MessageLoss {}", n),
            ExecutionError::NoRecipient { model } => format!("Err NoRecipient {:?}", model),
            ExecutionError::Panic { model, .. } => format!("Err Panic {}", model),
            ExecutionError::Timeout => "Err Timeout".into(),
            ExecutionError::OutOfSync(d) => format!("Err OutOfSync {}", from_dur(*d)),
            ExecutionError::BadQuery => "Err BadQuery".into(),
            ExecutionError::InvalidDeadline(t) => format!("Err InvalidDeadline {}", from_time(*t)),
        },
    }
}

struct ScriptClock {
    sh: Arc<Shared>,
    lags: HashMap<usize, i128>,
    /// scheduling requests issued through a Scheduler handle from inside the k-th synchronize()
    reqs: HashMap<usize, SchedReq>,
    handle: Arc<Mutex<Option<(Scheduler, EventSource<u64>)>>>,
    n: usize,
    armed: Arc<Mutex<bool>>,
}
impl Clock for ScriptClock {
    fn synchronize(&mut self, deadline: MonotonicTime) -> SyncStatus {
        if !*self.armed.lock().unwrap() {
            // the synchronize() of SimInit::init is not part of the script; it is reported separately
            self.sh.log(format!("initsync {}", from_time(deadline)));
            return SyncStatus::Synchronized;
        }
        self.sh.log(format!("sync {}", from_time(deadline)));
        let k = self.n;
        self.n += 1;
        if let Some(req) = self.reqs.get(&k) {
            if let Some((scheduler, src)) = self.handle.lock().unwrap().as_mut() {
                let id = req.id;
                macro_rules! go {
                    ($dlv:expr) => {
                        match req.kind.as_str() {
                            "once" => scheduler.schedule($dlv, src.event(id)),
                            "periodic" => scheduler.schedule($dlv, src.periodic_event(to_dur(req.p), id)),
                            "keyed" => {
                                let (a, key) = src.keyed_event(id);
                                self.sh.keys.lock().unwrap().insert(id, key);
                                scheduler.schedule($dlv, a)
                            }
                            "kperiodic" => {
                                let (a, key) = src.keyed_periodic_event(to_dur(req.p), id);
                                self.sh.keys.lock().unwrap().insert(id, key);
                                scheduler.schedule($dlv, a)
                            }
                            _ => panic!("kind"),
                        }
                    };
                }
                let r = if req.dl == "abs" { go!(to_time(req.d)) } else { go!(to_dur(req.d)) };
                self.sh.log(format!("csched {} {}", k, fmt_sched(&r)));
            }
        }
        match self.lags.get(&k) {
            Some(l) => SyncStatus::OutOfSync(to_dur(*l)),
            None => SyncStatus::Synchronized,
        }
    }
}

#[test]
fn verif_run_script() {
    let path = match std::env::var("VERIF_SCRIPT") {
        Ok(p) => p,
        Err(_) => return,
    };
    let threads: usize = std::env::var("VERIF_THREADS").ok().and_then(|s| s.parse().ok()).unwrap_or(1);
    let text = std::fs::read_to_string(&path).unwrap();
    let lines: Vec<Vec<String>> = text
        .lines()
        .map(|l| l.split_whitespace().map(|s| s.to_string()).collect::<Vec<_>>())
        .filter(|v: &Vec<String>| !v.is_empty() && !v[0].starts_with('#'))
        .collect();
    let mut t0: i128 = 0;
    let mut tol: Option<i128> = None;
    let mut capacity: usize = 16;
    let mut lags = HashMap::new();
    let mut reqs: HashMap<usize, SchedReq> = HashMap::new();
    for l in &lines {
        match l[0].as_str() {
            "t0" => t0 = l[1].parse().unwrap(),
            "tol" => tol = if l[1] == "none" { None } else { Some(l[1].parse().unwrap()) },
            "capacity" => capacity = l[1].parse().unwrap(),
            "clock" => {
                let k = l[1].parse::<usize>().unwrap();
                if l[2] == "lag" {
                    lags.insert(k, l[3].parse::<i128>().unwrap());
                } else {
                    // clock <k> sched <kind> <abs|rel> <d> <p> <id>
                    reqs.insert(
                        k,
                        SchedReq {
                            kind: l[3].clone(),
                            dl: l[4].clone(),
                            d: l[5].parse().unwrap(),
                            p: l[6].parse().unwrap(),
                            id: l[7].parse().unwrap(),
                        },
                    );
                }
            }
            _ => {}
        }
    }
    let sh = Arc::new(Shared::default());
    let armed = Arc::new(Mutex::new(false));
    let handle: Arc<Mutex<Option<(Scheduler, EventSource<u64>)>>> = Arc::new(Mutex::new(None));
    let mbox_a: Mailbox<R> = Mailbox::with_capacity(capacity);
    let mbox_b: Mailbox<R> = Mailbox::with_capacity(capacity);
    let addr_a: Address<R> = mbox_a.address();
    let addr_b: Address<R> = mbox_b.address();
    let mut init = SimInit::with_num_threads(threads)
        .add_model(R { sh: sh.clone() }, mbox_a, "a")
        .add_model(R { sh: sh.clone() }, mbox_b, "b")
        .set_clock(ScriptClock { sh: sh.clone(), lags, reqs, handle: handle.clone(), n: 0, armed: armed.clone() });
    if let Some(t) = tol {
        init = init.set_clock_tolerance(to_dur(t));
    }
    let (mut simu, scheduler): (_, Scheduler) = init.init(to_time(t0)).unwrap();
    *armed.lock().unwrap() = true;
    for e in sh.log.lock().unwrap().drain(..) {
        println!("VERIF-INIT {}", e);
    }
    let mut src: EventSource<u64> = EventSource::new();
    src.connect(R::fire, &addr_a);
    {
        let mut src2: EventSource<u64> = EventSource::new();
        src2.connect(R::fire, &addr_a);
        *handle.lock().unwrap() = Some((scheduler.clone(), src2));
    }

    let mut out: Vec<String> = Vec::new();
    let mut idx = 0usize;
    println!("VERIF-TRACE-BEGIN");
    let flush = |out: &mut Vec<String>, i: usize, sh: &Shared| {
        for e in sh.log.lock().unwrap().drain(..) {
            out.push(format!("ev {} {}", i, e));
        }
    };
    for l in &lines {
        let op = l[0].as_str();
        if op == "t0" || op == "tol" || op == "clock" || op == "capacity" {
            continue;
        }
        let i = idx;
        idx += 1;
        println!("begin {} {}", i, op);
        match op {
            "sched" => {
                // sched <kind> <origin> <abs|rel> <d> <p> <id> <api> <effect...>
                let kind = l[1].clone();
                let origin: usize = l[2].parse().unwrap();
                let dl = l[3].clone();
                let d: i128 = l[4].parse().unwrap();
                let p: i128 = l[5].parse().unwrap();
                let id: u64 = l[6].parse().unwrap();
                let api = l[7].as_str();
                let eff = match l.get(8).map(|s| s.as_str()) {
                    None | Some("none") => Effect::None,
                    Some("cancel") => Effect::Cancel(l[9].parse().unwrap()),
                    Some("panic") => Effect::Panic,
                    Some("sched") => Effect::Sched {
                        kind: l[9].clone(),
                        dl: l[10].clone(),
                        d: l[11].parse().unwrap(),
                        p: l[12].parse().unwrap(),
                        id: l[13].parse().unwrap(),
                        owner: i,
                    },
                    _ => panic!("effect"),
                };
                sh.effects.lock().unwrap().insert(id, eff);
                let res: String;
                if origin == 0 {
                    macro_rules! go {
                        ($dlv:expr) => {
                            if api == "action" {
                                match kind.as_str() {
                                    "once" => scheduler.schedule($dlv, src.event(id)),
                                    "periodic" => scheduler.schedule($dlv, src.periodic_event(to_dur(p), id)),
                                    "keyed" => {
                                        let (a, k) = src.keyed_event(id);
                                        sh.keys.lock().unwrap().insert(id, k);
                                        scheduler.schedule($dlv, a)
                                    }
                                    "kperiodic" => {
                                        let (a, k) = src.keyed_periodic_event(to_dur(p), id);
                                        sh.keys.lock().unwrap().insert(id, k);
                                        scheduler.schedule($dlv, a)
                                    }
                                    _ => panic!("kind"),
                                }
                            } else {
                                match kind.as_str() {
                                    "once" => scheduler.schedule_event($dlv, R::fire, id, &addr_a),
                                    "periodic" => scheduler.schedule_periodic_event($dlv, to_dur(p), R::fire, id, &addr_a),
                                    "keyed" => scheduler.schedule_keyed_event($dlv, R::fire, id, &addr_a).map(|k| {
                                        sh.keys.lock().unwrap().insert(id, k);
                                    }),
                                    "kperiodic" => scheduler
                                        .schedule_keyed_periodic_event($dlv, to_dur(p), R::fire, id, &addr_a)
                                        .map(|k| {
                                            sh.keys.lock().unwrap().insert(id, k);
                                        }),
                                    _ => panic!("kind"),
                                }
                            }
                        };
                    }
                    let r = if dl == "abs" { go!(to_time(d)) } else { go!(to_dur(d)) };
                    res = fmt_sched(&r);
                } else {
                    let addr = if origin == 1 { &addr_a } else { &addr_b };
                    *sh.last_sched.lock().unwrap() = None;
                    let pr = simu.process_event(R::do_sched, SchedReq { kind, dl, d, p, id }, addr);
                    res = match (pr, sh.last_sched.lock().unwrap().take()) {
                        (Ok(()), Some(r)) => fmt_sched(&r),
                        (e, _) => format!("ProcessFailed {}", fmt_exec(&e)),
                    };
                }
                flush(&mut out, i, &sh);
                out.push(format!("res {} {}", i, res));
            }
            "cancel" => {
                let k: u64 = l[1].parse().unwrap();
                if let Some(key) = sh.keys.lock().unwrap().get(&k).cloned() {
                    key.cancel();
                }
                out.push(format!("res {} Ok", i));
            }
            "dropauto" => {
                let k: u64 = l[1].parse().unwrap();
                if let Some(key) = sh.keys.lock().unwrap().get(&k).cloned() {
                    drop(key.into_auto());
                }
                out.push(format!("res {} Ok", i));
            }
            "step" => {
                let r = simu.step();
                flush(&mut out, i, &sh);
                out.push(format!("res {} {}", i, fmt_exec(&r)));
            }
            "until" => {
                let d: i128 = l[2].parse().unwrap();
                let r = if l[1] == "abs" { simu.step_until(to_time(d)) } else { simu.step_until(to_dur(d)) };
                flush(&mut out, i, &sh);
                out.push(format!("res {} {}", i, fmt_exec(&r)));
            }
            "process" => {
                let id: u64 = l[1].parse().unwrap();
                sh.effects.lock().unwrap().insert(id, Effect::None);
                let r = simu.process(src.event(id));
                flush(&mut out, i, &sh);
                out.push(format!("res {} {}", i, fmt_exec(&r)));
            }
            _ => panic!("unknown op {}", op),
        }
        out.push(format!("time {} {}", i, from_time(simu.time())));
        for l in out.drain(..) {
            println!("{}", l);
        }
    }
    println!("VERIF-TRACE-END");
}
