//! Native replay for C06: a hierarchical bench (models with sub-models added during `build`) in which chosen models
//! dead-lock on a query loop-back; prints the error the real simulation reports.
//! Script ($VERIF_SCRIPT): one node per line `node <index> <parent index or -1> <name (or _ for empty)>`, then
//! `deadlock <index> ...` (the models to trigger, in order) and `threads <n>`.
use std::collections::HashMap;
use std::sync::{Arc, Mutex};

use nexosim::model::{BuildContext, Model, ProtoModel};
use nexosim::ports::Requestor;
use nexosim::simulation::{Address, ExecutionError, Mailbox, SimInit};
use nexosim::time::MonotonicTime;

#[derive(Default)]
struct Node {
    requestor: Requestor<(), ()>,
}
impl Node {
    // a query sent to itself while handling a message can never be answered: the model stalls with the request queued
    async fn trigger(&mut self) {
        let _ = self.requestor.send(()).await;
    }
    async fn reply(&mut self) {}
    fn boom(&mut self) {
        panic!("verif: scripted model panic");
    }
}
impl Model for Node {}

struct Spec {
    name: String,
    children: Vec<usize>,
}

struct ProtoNode {
    idx: usize,
    specs: Arc<Vec<Spec>>,
    mailboxes: Arc<Mutex<HashMap<usize, Mailbox<Node>>>>,
    addrs: Arc<HashMap<usize, Address<Node>>>,
}
impl ProtoModel for ProtoNode {
    type Model = Node;
    fn build(self, cx: &mut BuildContext<Self>) -> Node {
        for &c in &self.specs[self.idx].children {
            let mbox = self.mailboxes.lock().unwrap().remove(&c).unwrap();
            cx.add_submodel(
                ProtoNode { idx: c, specs: self.specs.clone(), mailboxes: self.mailboxes.clone(), addrs: self.addrs.clone() },
                mbox,
                self.specs[c].name.clone(),
            );
        }
        let mut n = Node::default();
        n.requestor.connect(Node::reply, self.addrs[&self.idx].clone());
        n
    }
}

#[test]
fn verif_run_c06_script() {
    let path = match std::env::var("VERIF_SCRIPT") {
        Ok(p) => p,
        Err(_) => return,
    };
    let text = std::fs::read_to_string(path).unwrap();
    let mut specs: Vec<Spec> = Vec::new();
    let mut parents: Vec<i64> = Vec::new();
    let mut deadlocks: Vec<usize> = Vec::new();
    let mut panics: Vec<usize> = Vec::new();
    let mut threads = 1usize;
    for l in text.lines() {
        let t: Vec<&str> = l.split_whitespace().collect();
        if t.is_empty() {
            continue;
        }
        match t[0] {
            "node" => {
                specs.push(Spec { name: if t[3] == "_" { String::new() } else { t[3].to_string() }, children: Vec::new() });
                parents.push(t[2].parse().unwrap());
            }
            "deadlock" => deadlocks = t[1..].iter().map(|s| s.parse().unwrap()).collect(),
            "panic" => panics = t[1..].iter().map(|s| s.parse().unwrap()).collect(),
            "threads" => threads = t[1].parse().unwrap(),
            _ => panic!("line"),
        }
    }
    for (i, p) in parents.iter().enumerate() {
        if *p >= 0 {
            specs[*p as usize].children.push(i);
        }
    }
    let mut mailboxes = HashMap::new();
    let mut addrs = HashMap::new();
    for i in 0..specs.len() {
        let m: Mailbox<Node> = Mailbox::new();
        addrs.insert(i, m.address());
        mailboxes.insert(i, m);
    }
    let specs = Arc::new(specs);
    let addrs = Arc::new(addrs);
    let mailboxes = Arc::new(Mutex::new(mailboxes));
    let mut init = SimInit::with_num_threads(threads);
    for (i, p) in parents.iter().enumerate() {
        if *p < 0 {
            let mbox = mailboxes.lock().unwrap().remove(&i).unwrap();
            init = init.add_model(
                ProtoNode { idx: i, specs: specs.clone(), mailboxes: mailboxes.clone(), addrs: addrs.clone() },
                mbox,
                specs[i].name.clone(),
            );
        }
    }
    let mut simu = init.init(MonotonicTime::EPOCH).unwrap().0;
    println!("VERIF-TRACE-BEGIN");
    for d in deadlocks {
        let r = simu.process_event(Node::trigger, (), addrs[&d].clone());
        match r {
            Ok(()) => println!("res Ok"),
            Err(ExecutionError::Deadlock(v)) => {
                let s: Vec<String> = v.iter().map(|x| format!("{}={}", x.model, x.mailbox_size)).collect();
                println!("res Deadlock {}", s.join(" "));
            }
            Err(ExecutionError::MessageLoss(n)) => println!("res MessageLoss {}", n),
            Err(ExecutionError::Terminated) => println!("res Terminated"),
            Err(e) => println!("res Other {:?}", e),
        }
    }
    for d in panics {
        // silence the default panic message of the scripted panic
        std::panic::set_hook(Box::new(|_| {}));
        let r = simu.process_event(Node::boom, (), addrs[&d].clone());
        match r {
            Ok(()) => println!("res Ok"),
            Err(ExecutionError::Panic { model, .. }) => println!("res Panic {}", model),
            Err(ExecutionError::Terminated) => println!("res Terminated"),
            Err(e) => println!("res Other {:?}", e),
        }
    }
    println!("VERIF-TRACE-END");
}
