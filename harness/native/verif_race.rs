//! Native stress replay for the lock-discipline obligations of C08/C01: a scheduling thread hammers
//! `Scheduler::schedule_event(relative deadline)` while the main thread steps the simulation; every accepted request
//! must fire exactly at its deadline and the simulation time must never decrease.
//! $VERIF_RACE = `until` (main thread loops step_until(now + 3ns)) or `step` (main thread loops step()).
//! Prints `race-violation ...` lines; the test itself never fails (the Python side judges).
use std::sync::atomic::{AtomicBool, AtomicU64, Ordering};
use std::sync::{Arc, Mutex};
use std::time::{Duration, Instant};

use nexosim::model::{Context, Model};
use nexosim::simulation::{Mailbox, SimInit};
use nexosim::time::MonotonicTime;

struct M {
    last: Arc<Mutex<MonotonicTime>>,
    bad: Arc<AtomicU64>,
    /// latest simulation time (ns) that the driver observed after a completed stepping call
    driver_seen: Arc<AtomicU64>,
}
fn ns(t: MonotonicTime) -> u64 {
    (t.as_secs() as u64) * 1_000_000_000 + t.subsec_nanos() as u64
}
impl M {
    fn fire(&mut self, deadline: MonotonicTime, cx: &mut Context<Self>) {
        let now = cx.time();
        let mut last = self.last.lock().unwrap();
        let seen = self.driver_seen.load(Ordering::Relaxed);
        if ns(now) < seen {
            if self.bad.fetch_add(1, Ordering::Relaxed) < 5 {
                println!("race-violation time went backwards: an action ran at {:?} after the driver had observed the simulation time {} ns", now, seen);
            }
        }
        if now != deadline || now < *last {
            if self.bad.fetch_add(1, Ordering::Relaxed) < 5 {
                println!("race-violation handler: deadline {:?} executed at {:?} (previous execution at {:?})", deadline, now, *last);
            }
        }
        if now > *last {
            *last = now;
        }
    }
}
impl Model for M {}

#[test]
fn verif_race_stress() {
    let mode = match std::env::var("VERIF_RACE") {
        Ok(m) => m,
        Err(_) => return,
    };
    let secs: u64 = std::env::var("VERIF_RACE_SECS").ok().and_then(|s| s.parse().ok()).unwrap_or(8);
    let last = Arc::new(Mutex::new(MonotonicTime::EPOCH));
    let bad = Arc::new(AtomicU64::new(0));
    let driver_seen = Arc::new(AtomicU64::new(0));
    let mbox = Mailbox::with_capacity(1024);
    let addr = mbox.address();
    let (mut simu, scheduler) = SimInit::with_num_threads(1)
        .add_model(M { last: last.clone(), bad: bad.clone(), driver_seen: driver_seen.clone() }, mbox, "m")
        .init(MonotonicTime::EPOCH)
        .unwrap();
    let stop = Arc::new(AtomicBool::new(false));
    let stop2 = stop.clone();
    let bad2 = bad.clone();
    let th = std::thread::spawn(move || {
        let mut n = 0u64;
        while !stop2.load(Ordering::Relaxed) {
            let now = scheduler.time();
            let d = now + Duration::from_nanos(1 + (n % 3));
            // absolute deadline computed from a time read WITHOUT the lock: it may be stale, then the request must be rejected
            if scheduler.schedule_event(d, M::fire, d, &addr).is_ok() {
                // accepted: it must fire at d (checked by the handler)
            }
            n += 1;
            if bad2.load(Ordering::Relaxed) > 0 {
                break;
            }
        }
        n
    });
    let t0 = Instant::now();
    let mut prev = simu.time();
    println!("VERIF-TRACE-BEGIN");
    let mut steps = 0u64;
    while t0.elapsed() < Duration::from_secs(secs) && bad.load(Ordering::Relaxed) == 0 {
        if mode == "until" {
            simu.step_until(Duration::from_nanos(3)).unwrap();
        } else {
            simu.step().unwrap();
        }
        let now = simu.time();
        if now < prev {
            println!("race-violation time went backwards: {:?} after {:?}", now, prev);
            bad.fetch_add(1, Ordering::Relaxed);
        }
        prev = now;
        driver_seen.store(ns(now), Ordering::Relaxed);
        steps += 1;
    }
    stop.store(true, Ordering::Relaxed);
    let n = th.join().unwrap();
    println!("race-summary mode={} steps={} requests={} violations={}", mode, steps, n, bad.load(Ordering::Relaxed));
    println!("VERIF-TRACE-END");
}
