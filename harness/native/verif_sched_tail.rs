// ---- RUNNER (in-crate, scheduled) ----
// Appended to the shared part of verif_bench.rs and compiled *inside* the crate (cfg(test)) by /verif: the bench is
// built through the same public API, but the model tasks are polled by hand in the exact order of the solver's
// counterexample (`sched` lines: one per run, i.e. init and then each event).  The model task is the same future as in
// `simulation::add_model` (init().await.0, then the receive loop); the driver's send is the same future as in
// `Simulation::process_event`.  Everything below the task level (ports, broadcaster, senders, channel, queue) is the
// crate's own code.
use std::sync::atomic::AtomicBool;
use std::task::Wake;

use recycle_box::{coerce_box, RecycleBox};

use crate::ports::InputFn;
use crate::simulation::GlobalScheduler;
use crate::time::{AtomicTime, TearableAtomicTime};
use crate::util::priority_queue::PriorityQueue;

struct Flag(AtomicBool);
impl Wake for Flag {
    fn wake(self: Arc<Self>) {
        self.0.store(true, Ordering::SeqCst);
    }
    fn wake_by_ref(self: &Arc<Self>) {
        self.0.store(true, Ordering::SeqCst);
    }
}

struct TaskSlot {
    fut: Option<Pin<Box<dyn Future<Output = ()>>>>,
    flag: Arc<Flag>,
}

fn run_tasks(tasks: &mut Vec<TaskSlot>, sched: &[usize], sh: &Shared) {
    let mut pos = 0;
    let mut polls = 0;
    loop {
        // next task: the scheduled one while the schedule lasts, then the first woken task
        let ti = if pos < sched.len() {
            pos += 1;
            sched[pos - 1]
        } else {
            match tasks.iter().position(|t| t.fut.is_some() && t.flag.0.load(Ordering::SeqCst)) {
                Some(i) => i,
                None => break,
            }
        };
        polls += 1;
        if polls > 2000 || ti >= tasks.len() {
            break;
        }
        let t = &mut tasks[ti];
        if t.fut.is_none() {
            continue;
        }
        t.flag.0.store(false, Ordering::SeqCst);
        let waker = std::task::Waker::from(t.flag.clone());
        let mut cx = TaskContext::from_waker(&waker);
        sh.log(format!("[\"poll\",{}]", ti));
        if t.fut.as_mut().unwrap().as_mut().poll(&mut cx).is_ready() {
            t.fut = None;
        }
    }
}

#[test]
fn verif_run_sched_script() {
    let mut b = match load_bench() {
        Some(b) => b,
        None => return,
    };
    let sh = b.sh.clone();
    let queue = Arc::new(Mutex::new(PriorityQueue::new()));
    let time = AtomicTime::new(TearableAtomicTime::new(MonotonicTime::EPOCH));
    let scheduler = GlobalScheduler::new(queue, time.reader());
    let mut tasks: Vec<TaskSlot> = Vec::new();
    let mut sms: Vec<Option<SM>> = std::mem::take(&mut b.sms).into_iter().map(Some).collect();
    let mut mboxes: Vec<Option<Mailbox<SM>>> = std::mem::take(&mut b.mboxes).into_iter().map(Some).collect();
    // tasks in the order add_model spawns them (sub-models before their parent), under their qualified names
    for i in b.spawn_order() {
        let (model, mailbox) = (sms[i].take().unwrap(), mboxes[i].take().unwrap());
        // as in simulation::add_model
        let address = mailbox.address();
        let mut receiver = mailbox.0;
        let mut cx = Context::new(b.qualified_name(i), scheduler.clone(), address);
        let fut = async move {
            let mut model = model.init(&mut cx).await.0;
            while receiver.recv(&mut model, &mut cx).await.is_ok() {}
        };
        tasks.push(TaskSlot { fut: Some(Box::pin(fut)), flag: Arc::new(Flag(AtomicBool::new(true))) });
    }
    let count = || crate::channel::THREAD_MSG_COUNT.replace(0);
    let mut run_idx = 0;
    sh.log("[\"cmd-begin\",\"init\"]".to_string());
    run_tasks(&mut tasks, b.sched.get(run_idx).map(|v| v.as_slice()).unwrap_or(&[]), &sh);
    run_idx += 1;
    let n = count();
    sh.log(format!("[\"cmd-end\",\"init\",{}]", if n == 0 { "[\"Ok\"]".to_string() } else { format!("[\"Unprocessed\",{}]", n) }));
    if n == 0 {
        for (k, c) in b.cmds.iter().enumerate() {
            if c[0] == "connect" {
                b.connect_late(c);
                continue;
            }
            let (model, port): (usize, usize) = (c[1].parse().unwrap(), c[2].parse().unwrap());
            let ctx = format!("[\"driver\",{}]", k + 1);
            let mid = sh.new_msg(&ctx, &format!("[\"direct\",{},{}]", model, port));
            sh.log(format!("[\"cmd-begin\",{}]", k + 1));
            let arg = sh.payload(mid);
            // as in Simulation::process_event
            let sender = b.addrs[model].clone().0;
            let fut = async move {
                let _ = sender
                    .send(move |model: &mut SM, scheduler, recycle_box: RecycleBox<()>| -> RecycleBox<dyn Future<Output = ()> + Send + '_> {
                        if port == 0 {
                            let fut = InputFn::call(SM::in0, model, arg, scheduler);
                            coerce_box!(RecycleBox::recycle(recycle_box, fut))
                        } else {
                            let fut = InputFn::call(SM::in1, model, arg, scheduler);
                            coerce_box!(RecycleBox::recycle(recycle_box, fut))
                        }
                    })
                    .await;
            };
            tasks.push(TaskSlot { fut: Some(Box::pin(fut)), flag: Arc::new(Flag(AtomicBool::new(true))) });
            run_tasks(&mut tasks, b.sched.get(run_idx).map(|v| v.as_slice()).unwrap_or(&[]), &sh);
            run_idx += 1;
            let n = count();
            sh.log(format!("[\"cmd-end\",{},{}]", k + 1, if n == 0 { "[\"Ok\"]".to_string() } else { format!("[\"Unprocessed\",{}]", n) }));
            if n != 0 {
                break;
            }
        }
    }
    for l in sh.log.lock().unwrap().iter() {
        println!("LOG {}", l);
    }
}
