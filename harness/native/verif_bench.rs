//! Native replay of message-plane counterexamples (C02, C03, C12 wake-ups, C14, C16): the same scripted bench as
//! vlib/mirse/taskworld.py, built through the public API and run on the real executors.
//!
//! Script ($VERIF_SCRIPT), one item per line:
//!   model <name> <capacity>
//!   output <i.k> <orig|clone-before|clone-after> <to>:<port>:<plain|map|filter>:<0|1 late> ...
//!   requestor <i.k> <orig|clone-before|clone-after> <to>:<port>:<plain|filter>:<late> ...
//!   handler <j.p> <op> ...        op = send:<k> | query:<k> | queryfirst:<k> | yield
//!   init <i> <op> ...
//!   bits <b1> <b2> ...            low data bit of message 1, 2, ... (filters accept a message iff the bit is 1)
//!   threads <n>
//!   event <model> <port>          driver command: process_event
//!   connect <Output|Requestor> <i.k> <ci>
//! Output: one JSON array per line prefixed with `LOG `, same tuples as the python observation log.
use std::collections::HashMap;
use std::future::Future;
use std::pin::Pin;
use std::sync::atomic::{AtomicU64, Ordering};
use std::sync::{Arc, Mutex};
use std::task::{Context as TaskContext, Poll};

use nexosim::model::{Context, InitializedModel, Model};
use nexosim::ports::{Output, Requestor};
use nexosim::simulation::{Address, ExecutionError, Mailbox, SimInit};
use nexosim::time::MonotonicTime;

#[derive(Clone, Debug)]
enum Op {
    Send(usize),
    Query(usize),
    QueryFirst(usize),
    Yield,
    /// sub-operations (on different ports) polled concurrently, like `futures::join!`
    Join(Vec<Op>),
}

type Ports = (Option<(usize, Output<u64>)>, Option<(usize, Requestor<u64, u64>)>);

/// Polls every unfinished sub-future on each poll, in order; ready when all are.
struct JoinAll {
    futs: Vec<Option<Pin<Box<dyn Future<Output = Ports> + Send>>>>,
    done: Vec<Ports>,
}
impl Future for JoinAll {
    type Output = Vec<Ports>;
    fn poll(mut self: Pin<&mut Self>, cx: &mut TaskContext<'_>) -> Poll<Vec<Ports>> {
        let this = &mut *self;
        let mut pending = false;
        for f in this.futs.iter_mut() {
            if let Some(fut) = f.as_mut() {
                match fut.as_mut().poll(cx) {
                    Poll::Ready(p) => {
                        this.done.push(p);
                        *f = None;
                    }
                    Poll::Pending => pending = true,
                }
            }
        }
        if pending {
            Poll::Pending
        } else {
            Poll::Ready(std::mem::take(&mut this.done))
        }
    }
}

#[derive(Clone)]
struct Conn {
    to: usize,
    port: usize,
    kind: String,
    late: bool,
}

#[derive(Default)]
struct Shared {
    log: Mutex<Vec<String>>,
    next_msg: AtomicU64,
    next_hid: AtomicU64,
    handlers: HashMap<String, Vec<Op>>,
    inits: HashMap<usize, Vec<Op>>,
    bits: Vec<u64>,
}
impl Shared {
    fn log(&self, s: String) {
        self.log.lock().unwrap().push(s);
    }
    fn new_msg(&self, ctx: &str, via: &str) -> u64 {
        // id allocation and the send-begin entry are one atomic step so that log order = id order
        let mut l = self.log.lock().unwrap();
        let m = self.next_msg.fetch_add(1, Ordering::Relaxed) + 1;
        l.push(format!("[\"send-begin\",{},{},{}]", m, ctx, via));
        m
    }
    fn payload(&self, mid: u64) -> u64 {
        let bit = self.bits.get((mid - 1) as usize).copied().unwrap_or(1) & 1;
        (mid << 32) | bit
    }
}

struct YieldOnce(bool);
impl Future for YieldOnce {
    type Output = ();
    fn poll(mut self: Pin<&mut Self>, cx: &mut TaskContext<'_>) -> Poll<()> {
        if self.0 {
            return Poll::Ready(());
        }
        self.0 = true;
        cx.waker().wake_by_ref();
        Poll::Pending
    }
}

struct SM {
    id: usize,
    outs: HashMap<usize, Output<u64>>,
    reqs: HashMap<usize, Requestor<u64, u64>>,
    sh: Arc<Shared>,
}
impl SM {
    async fn run_ops(&mut self, ops: &[Op], hid: u64) {
        let ctx = format!("[\"h\",{}]", hid);
        for op in ops {
            match op {
                Op::Send(k) => {
                    let mid = self.sh.new_msg(&ctx, &format!("[\"output\",\"{}.{}\"]", self.id, k));
                    let p = self.sh.payload(mid);
                    self.outs.get_mut(k).unwrap().send(p).await;
                    self.sh.log(format!("[\"send-end\",{},{}]", mid, ctx));
                }
                Op::Query(k) | Op::QueryFirst(k) => {
                    let first = matches!(op, Op::QueryFirst(_));
                    let mid = self.sh.new_msg(&ctx, &format!("[\"requestor\",\"{}.{}\"]", self.id, k));
                    let p = self.sh.payload(mid);
                    let mut replies = Vec::new();
                    {
                        let mut it = self.reqs.get_mut(k).unwrap().send(p).await;
                        if first {
                            if let Some(r) = it.next() {
                                replies.push(r);
                            }
                        } else {
                            for r in it {
                                replies.push(r);
                            }
                        }
                    }
                    let rs: Vec<String> = replies.iter().map(|r| r.to_string()).collect();
                    self.sh.log(format!("[\"{}\",{},{},[{}]]", if first { "query-first-end" } else { "query-end" }, mid, ctx, rs.join(",")));
                }
                Op::Yield => YieldOnce(false).await,
                Op::Join(subs) => {
                    // the ports are moved into the sub-futures for the duration of the join and put back afterwards
                    let mut futs: Vec<Option<Pin<Box<dyn Future<Output = Ports> + Send>>>> = Vec::new();
                    for s in subs {
                        let sh = self.sh.clone();
                        let ctx = ctx.clone();
                        let id = self.id;
                        match s {
                            Op::Send(k) => {
                                let k = *k;
                                let mut o = self.outs.remove(&k).unwrap();
                                futs.push(Some(Box::pin(async move {
                                    let mid = sh.new_msg(&ctx, &format!("[\"output\",\"{}.{}\"]", id, k));
                                    o.send(sh.payload(mid)).await;
                                    sh.log(format!("[\"send-end\",{},{}]", mid, ctx));
                                    (Some((k, o)), None)
                                })));
                            }
                            Op::Query(k) | Op::QueryFirst(k) => {
                                let k = *k;
                                let first = matches!(s, Op::QueryFirst(_));
                                let mut r = self.reqs.remove(&k).unwrap();
                                futs.push(Some(Box::pin(async move {
                                    let mid = sh.new_msg(&ctx, &format!("[\"requestor\",\"{}.{}\"]", id, k));
                                    let mut replies = Vec::new();
                                    {
                                        let mut it = r.send(sh.payload(mid)).await;
                                        if first {
                                            if let Some(x) = it.next() {
                                                replies.push(x);
                                            }
                                        } else {
                                            for x in it {
                                                replies.push(x);
                                            }
                                        }
                                    }
                                    let rs: Vec<String> = replies.iter().map(|x| x.to_string()).collect();
                                    sh.log(format!("[\"{}\",{},{},[{}]]", if first { "query-first-end" } else { "query-end" }, mid, ctx, rs.join(",")));
                                    (None, Some((k, r)))
                                })));
                            }
                            Op::Yield => futs.push(Some(Box::pin(async move {
                                YieldOnce(false).await;
                                (None, None)
                            }))),
                            Op::Join(_) => panic!("nested join"),
                        }
                    }
                    for (o, r) in (JoinAll { futs, done: Vec::new() }).await {
                        if let Some((k, o)) = o {
                            self.outs.insert(k, o);
                        }
                        if let Some((k, r)) = r {
                            self.reqs.insert(k, r);
                        }
                    }
                }
            }
        }
    }
    async fn handle(&mut self, port: usize, arg: u64, kind: &str) -> u64 {
        let mid = arg >> 32;
        let hid = self.sh.next_hid.fetch_add(1, Ordering::Relaxed) + 1;
        self.sh.log(format!("[\"handle\",{},{},{},{},\"{}\"]", self.id, port, mid, hid, kind));
        let ops = self.sh.handlers.get(&format!("{}.{}", self.id, port)).cloned().unwrap_or_default();
        self.run_ops(&ops, hid).await;
        self.sh.log(format!("[\"handled\",{}]", hid));
        1000 * (self.id as u64 + 1) + mid
    }
    pub async fn in0(&mut self, arg: u64) {
        self.handle(0, arg, "handler").await;
    }
    pub async fn in1(&mut self, arg: u64) {
        self.handle(1, arg, "handler").await;
    }
    pub async fn rep0(&mut self, arg: u64) -> u64 {
        self.handle(0, arg, "replier").await
    }
    pub async fn rep1(&mut self, arg: u64) -> u64 {
        self.handle(1, arg, "replier").await
    }
}
impl Model for SM {
    async fn init(mut self, cx: &mut Context<Self>) -> InitializedModel<Self> {
        let hid = self.sh.next_hid.fetch_add(1, Ordering::Relaxed) + 1;
        self.sh.log(format!("[\"init\",{},{},\"{}\"]", self.id, hid, cx.name()));
        let ops = self.sh.inits.get(&self.id).cloned().unwrap_or_default();
        self.run_ops(&ops, hid).await;
        self.into()
    }
}

fn parse_ops(toks: &[&str]) -> Vec<Op> {
    toks.iter()
        .map(|t| {
            if let Some(rest) = t.strip_prefix("join:") {
                let subs: Vec<&str> = rest.split('+').collect();
                return Op::Join(parse_ops(&subs));
            }
            let mut p = t.split(':');
            match p.next().unwrap() {
                "send" => Op::Send(p.next().unwrap().parse().unwrap()),
                "query" => Op::Query(p.next().unwrap().parse().unwrap()),
                "queryfirst" => Op::QueryFirst(p.next().unwrap().parse().unwrap()),
                "yield" => Op::Yield,
                x => panic!("op {}", x),
            }
        })
        .collect()
}

fn connect_out(sh: &Arc<Shared>, out: &mut Output<u64>, key: &str, ci: usize, c: &Conn, addrs: &[Address<SM>]) {
    let a = addrs[c.to].clone();
    let conn = format!("{}#{}", key, ci);
    let shc = sh.clone();
    match (c.kind.as_str(), c.port) {
        ("plain", 0) => out.connect(SM::in0, a),
        ("plain", _) => out.connect(SM::in1, a),
        ("map", 0) => out.map_connect(|x: &u64| *x, SM::in0, a),
        ("map", _) => out.map_connect(|x: &u64| *x, SM::in1, a),
        ("filter", p) => {
            let f = move |x: &u64| {
                let keep = *x & 1 == 1;
                shc.log(format!("[\"filter\",\"{}\",{},{}]", conn, *x >> 32, keep));
                if keep {
                    Some(*x)
                } else {
                    None
                }
            };
            if p == 0 {
                out.filter_map_connect(f, SM::in0, a)
            } else {
                out.filter_map_connect(f, SM::in1, a)
            }
        }
        (k, _) => panic!("kind {}", k),
    }
}

fn connect_req(sh: &Arc<Shared>, rq: &mut Requestor<u64, u64>, key: &str, ci: usize, c: &Conn, addrs: &[Address<SM>]) {
    let a = addrs[c.to].clone();
    let conn = format!("{}#{}", key, ci);
    let shc = sh.clone();
    match (c.kind.as_str(), c.port) {
        ("plain", 0) => rq.connect(SM::rep0, a),
        ("plain", _) => rq.connect(SM::rep1, a),
        ("filter", p) => {
            let f = move |x: &u64| {
                let keep = *x & 1 == 1;
                shc.log(format!("[\"filter\",\"{}\",{},{}]", conn, *x >> 32, keep));
                if keep {
                    Some(*x)
                } else {
                    None
                }
            };
            if p == 0 {
                rq.filter_map_connect(f, |r: u64| r, SM::rep0, a)
            } else {
                rq.filter_map_connect(f, |r: u64| r, SM::rep1, a)
            }
        }
        (k, _) => panic!("kind {}", k),
    }
}

fn describe(r: &Result<(), ExecutionError>) -> String {
    match r {
        Ok(()) => "[\"Ok\"]".to_string(),
        Err(ExecutionError::Deadlock(v)) => {
            let mut items: Vec<String> = v.iter().map(|d| format!("[\"{}\",{}]", d.model, d.mailbox_size)).collect();
            items.sort();
            format!("[\"Deadlock\",[{}]]", items.join(","))
        }
        Err(ExecutionError::MessageLoss(n)) => format!("[\"MessageLoss\",{}]", n),
        Err(e) => format!("[\"{}\"]", format!("{:?}", e).split(|c: char| !c.is_alphanumeric()).next().unwrap_or("Error")),
    }
}

#[allow(dead_code)]
struct Bench {
    sh: Arc<Shared>,
    models: Vec<(String, usize)>,
    /// parent of each model (sub-models are added by the parent's `ProtoModel::build`)
    parents: Vec<Option<usize>>,
    outputs: Vec<(String, String, Vec<Conn>)>,
    requestors: Vec<(String, String, Vec<Conn>)>,
    threads: usize,
    cmds: Vec<Vec<String>>,
    sched: Vec<Vec<usize>>,
    sms: Vec<SM>,
    mboxes: Vec<Mailbox<SM>>,
    addrs: Vec<Address<SM>>,
    out_handles: HashMap<String, Output<u64>>,
    req_handles: HashMap<String, Requestor<u64, u64>>,
}

/// A scripted model together with the sub-models its `build` adds (in index order).
struct ProtoSM {
    sm: SM,
    children: Vec<(ProtoSM, Mailbox<SM>, String)>,
}
impl nexosim::model::ProtoModel for ProtoSM {
    type Model = SM;
    fn build(self, cx: &mut nexosim::model::BuildContext<Self>) -> SM {
        for (child, mbox, name) in self.children {
            cx.add_submodel(child, mbox, name);
        }
        self.sm
    }
}

impl Bench {
    fn children_of(&self, i: usize) -> Vec<usize> {
        (0..self.models.len()).filter(|&c| self.parents[c] == Some(i)).collect()
    }
    /// order in which the model tasks are spawned: a model's sub-models are built (and spawned) before the model itself
    fn spawn_order(&self) -> Vec<usize> {
        fn visit(b: &Bench, i: usize, out: &mut Vec<usize>) {
            for c in b.children_of(i) {
                visit(b, c, out);
            }
            out.push(i);
        }
        let mut out = Vec::new();
        for i in 0..self.models.len() {
            if self.parents[i].is_none() {
                visit(self, i, &mut out);
            }
        }
        out
    }
    fn qualified_name(&self, i: usize) -> String {
        match self.parents[i] {
            None => self.models[i].0.clone(),
            Some(p) => {
                let n = if self.models[i].0.is_empty() { "<unknown>".to_string() } else { self.models[i].0.clone() };
                format!("{}.{}", self.qualified_name(p), n)
            }
        }
    }
    fn connect_late(&self, c: &[String]) {
        let ci: usize = c[3].parse().unwrap();
        if c[1] == "Output" {
            let conns = &self.outputs.iter().find(|o| o.0 == c[2]).unwrap().2;
            let mut clone = self.out_handles[&c[2]].clone();
            connect_out(&self.sh, &mut clone, &c[2], ci, &conns[ci], &self.addrs);
        } else {
            let conns = &self.requestors.iter().find(|o| o.0 == c[2]).unwrap().2;
            let mut clone = self.req_handles[&c[2]].clone();
            connect_req(&self.sh, &mut clone, &c[2], ci, &conns[ci], &self.addrs);
        }
        self.sh.log(format!("[\"connect\",\"{}\",{}]", c[2], ci));
    }
}

fn load_bench() -> Option<Bench> {
    let path = match std::env::var("VERIF_SCRIPT") {
        Ok(p) => p,
        Err(_) => return None,
    };
    let text = std::fs::read_to_string(path).unwrap();
    let mut sched: Vec<Vec<usize>> = Vec::new();
    let mut models: Vec<(String, usize)> = Vec::new();
    let mut parents: Vec<Option<usize>> = Vec::new();
    let mut outputs: Vec<(String, String, Vec<Conn>)> = Vec::new();
    let mut requestors: Vec<(String, String, Vec<Conn>)> = Vec::new();
    let mut sh = Shared::default();
    let mut threads = 1usize;
    let mut cmds: Vec<Vec<String>> = Vec::new();
    let parse_conns = |toks: &[&str]| -> Vec<Conn> {
        toks.iter()
            .map(|t| {
                let p: Vec<&str> = t.split(':').collect();
                Conn { to: p[0].parse().unwrap(), port: p[1].parse().unwrap(), kind: p[2].to_string(), late: p[3] == "1" }
            })
            .collect()
    };
    for line in text.lines() {
        let t: Vec<&str> = line.split_whitespace().collect();
        if t.is_empty() {
            continue;
        }
        match t[0] {
            // model <name or _ for the empty name> <capacity> [<parent index or -1>]
            "model" => {
                models.push((if t[1] == "_" { String::new() } else { t[1].to_string() }, t[2].parse().unwrap()));
                let p: i64 = t.get(3).map(|x| x.parse().unwrap()).unwrap_or(-1);
                parents.push(if p < 0 { None } else { Some(p as usize) });
            }
            "output" => outputs.push((t[1].to_string(), t[2].to_string(), parse_conns(&t[3..]))),
            "requestor" => requestors.push((t[1].to_string(), t[2].to_string(), parse_conns(&t[3..]))),
            "handler" => {
                sh.handlers.insert(t[1].to_string(), parse_ops(&t[2..]));
            }
            "init" => {
                sh.inits.insert(t[1].parse().unwrap(), parse_ops(&t[2..]));
            }
            "bits" => sh.bits = t[1..].iter().map(|x| x.parse().unwrap()).collect(),
            "threads" => threads = t[1].parse().unwrap(),
            "event" | "connect" => cmds.push(t.iter().map(|s| s.to_string()).collect()),
            // sched <task index> ...: the order in which tasks are polled during one run (init, then one per event)
            "sched" => sched.push(t[1..].iter().map(|x| x.parse().unwrap()).collect()),
            x => panic!("script item {}", x),
        }
    }
    let sh = Arc::new(sh);
    let mboxes: Vec<Mailbox<SM>> = models.iter().map(|(_, cap)| Mailbox::with_capacity(*cap)).collect();
    let addrs: Vec<Address<SM>> = mboxes.iter().map(|m| m.address()).collect();
    let mut sms: Vec<SM> = (0..models.len()).map(|i| SM { id: i, outs: HashMap::new(), reqs: HashMap::new(), sh: sh.clone() }).collect();
    // handles kept outside the models for late connections (clones of what the models hold)
    let mut out_handles: HashMap<String, Output<u64>> = HashMap::new();
    let mut req_handles: HashMap<String, Requestor<u64, u64>> = HashMap::new();
    for (key, how, conns) in &outputs {
        let (i, k): (usize, usize) = {
            let mut p = key.split('.');
            (p.next().unwrap().parse().unwrap(), p.next().unwrap().parse().unwrap())
        };
        let mut port: Output<u64> = Output::default();
        let mut held = if how == "clone-before" { Some(port.clone()) } else { None };
        for (ci, c) in conns.iter().enumerate() {
            if !c.late {
                connect_out(&sh, &mut port, key, ci, c, &addrs);
            }
        }
        if how == "clone-after" {
            held = Some(port.clone());
        }
        let held = held.unwrap_or(port);
        out_handles.insert(key.clone(), held.clone());
        sms[i].outs.insert(k, held);
    }
    for (key, how, conns) in &requestors {
        let (i, k): (usize, usize) = {
            let mut p = key.split('.');
            (p.next().unwrap().parse().unwrap(), p.next().unwrap().parse().unwrap())
        };
        let mut port: Requestor<u64, u64> = Requestor::default();
        let mut held = if how == "clone-before" { Some(port.clone()) } else { None };
        for (ci, c) in conns.iter().enumerate() {
            if !c.late {
                connect_req(&sh, &mut port, key, ci, c, &addrs);
            }
        }
        if how == "clone-after" {
            held = Some(port.clone());
        }
        let held = held.unwrap_or(port);
        req_handles.insert(key.clone(), held.clone());
        sms[i].reqs.insert(k, held);
    }
    Some(Bench { sh, models, parents, outputs, requestors, threads, cmds, sched, sms, mboxes, addrs, out_handles, req_handles })
}

// ---- RUNNER (public API) ---- everything above is shared with the in-crate scheduled replay (verif_sched_tail.rs)

#[test]
fn verif_run_bench_script() {
    let mut b = match load_bench() {
        Some(b) => b,
        None => return,
    };
    let sh = b.sh.clone();
    let mut init = SimInit::with_num_threads(b.threads);
    let mut sms: Vec<Option<SM>> = std::mem::take(&mut b.sms).into_iter().map(Some).collect();
    let mut mboxes: Vec<Option<Mailbox<SM>>> = std::mem::take(&mut b.mboxes).into_iter().map(Some).collect();
    fn proto(b: &Bench, i: usize, sms: &mut Vec<Option<SM>>, mboxes: &mut Vec<Option<Mailbox<SM>>>) -> ProtoSM {
        let children = b.children_of(i).into_iter().map(|c| (proto(b, c, sms, mboxes), mboxes[c].take().unwrap(), b.models[c].0.clone())).collect();
        ProtoSM { sm: sms[i].take().unwrap(), children }
    }
    for i in 0..b.models.len() {
        if b.parents[i].is_none() {
            let p = proto(&b, i, &mut sms, &mut mboxes);
            init = init.add_model(p, mboxes[i].take().unwrap(), b.models[i].0.clone());
        }
    }
    sh.log("[\"cmd-begin\",\"init\"]".to_string());
    let r = init.init(MonotonicTime::EPOCH);
    let mut simu = match r {
        Ok((s, _)) => {
            sh.log("[\"cmd-end\",\"init\",[\"Ok\"]]".to_string());
            Some(s)
        }
        Err(e) => {
            sh.log(format!("[\"cmd-end\",\"init\",{}]", describe(&Err(e))));
            None
        }
    };
    if let Some(simu) = simu.as_mut() {
        for (k, c) in b.cmds.iter().enumerate() {
            if c[0] == "connect" {
                b.connect_late(c);
                continue;
            }
            let (model, port): (usize, usize) = (c[1].parse().unwrap(), c[2].parse().unwrap());
            let ctx = format!("[\"driver\",{}]", k + 1);
            let mid = sh.new_msg(&ctx, &format!("[\"direct\",{},{}]", model, port));
            sh.log(format!("[\"cmd-begin\",{}]", k + 1));
            let p = sh.payload(mid);
            let r = if port == 0 { simu.process_event(SM::in0, p, &b.addrs[model]) } else { simu.process_event(SM::in1, p, &b.addrs[model]) };
            sh.log(format!("[\"cmd-end\",{},{}]", k + 1, describe(&r)));
            if r.is_err() {
                break;
            }
        }
    }
    for l in sh.log.lock().unwrap().iter() {
        println!("LOG {}", l);
    }
}
