// Native replay of the C06 idle hand-off counterexample (schedule-dependent: a stress run).
//
// A source model broadcasts an event to several sink models on a multi-threaded executor, so that messages are
// routinely sent on one worker thread and received on another: the per-thread "sent minus received" counts are
// non-zero when the workers go idle although their sum is zero.  Every message is processed in every step, so no step
// may be reported as deadlocked or lossy, and the bookkeeping may not panic.
//
// Steps per thread count: C06_STRESS_STEPS (default 150000).  A false report prints a line `VERIF-FALSE-REPORT ...`.
use std::sync::atomic::{AtomicUsize, Ordering};
use std::sync::Arc;

use nexosim::model::Model;
use nexosim::ports::Output;
use nexosim::simulation::{Mailbox, SimInit};
use nexosim::time::MonotonicTime;

const SINKS: usize = 6;

#[derive(Default)]
struct Source {
    out: Output<()>,
}
impl Source {
    async fn fire(&mut self) {
        self.out.send(()).await;
    }
}
impl Model for Source {}

struct Sink {
    seen: Arc<AtomicUsize>,
}
impl Sink {
    async fn input(&mut self) {
        self.seen.fetch_add(1, Ordering::Relaxed);
    }
}
impl Model for Sink {}

fn steps() -> usize {
    std::env::var("C06_STRESS_STEPS").ok().and_then(|s| s.parse().ok()).unwrap_or(150_000)
}

fn stress(num_threads: usize) {
    let seen = Arc::new(AtomicUsize::new(0));
    let mut source = Source::default();
    let source_mbox = Mailbox::new();
    let source_addr = source_mbox.address();
    let mut init = SimInit::with_num_threads(num_threads);
    for i in 0..SINKS {
        let mbox = Mailbox::new();
        source.out.connect(Sink::input, &mbox);
        init = init.add_model(Sink { seen: seen.clone() }, mbox, format!("sink{}", i));
    }
    let mut simu = init.add_model(source, source_mbox, "source").init(MonotonicTime::EPOCH).unwrap().0;
    for step in 1..=steps() {
        let res = simu.process_event(Source::fire, (), &source_addr);
        let n = seen.load(Ordering::Relaxed);
        if res.is_err() || n != step * SINKS {
            println!("VERIF-FALSE-REPORT threads={} step={} processed={} expected={} result={:?}", num_threads, step, n, step * SINKS, res);
            panic!("false report");
        }
    }
}

#[test]
fn handoff_2_threads() {
    stress(2);
}

#[test]
fn handoff_4_threads() {
    stress(4);
}
