//! C20 — priority queues: stable minimum extraction and non-aliasing keys.
//! Kani harnesses over the *real* `PriorityQueue` / `IndexedPriorityQueue`.
//!
//! Reference model: fixed arrays, linear scan for the minimum of (key, seq).
use crate::util::indexed_priority_queue::{IndexedPriorityQueue, InsertKey};
use crate::util::priority_queue::PriorityQueue;

const MAXN: usize = 8;

#[derive(Clone, Copy)]
struct RefQ<K: Copy + Ord> {
    live: [bool; MAXN],
    key: [K; MAXN],
    val: [u8; MAXN],
    n: usize, // number of inserts so far == next sequence number
}

impl<K: Copy + Ord> RefQ<K> {
    fn new(dflt: K) -> Self {
        Self { live: [false; MAXN], key: [dflt; MAXN], val: [0; MAXN], n: 0 }
    }
    fn insert(&mut self, k: K, v: u8) -> usize {
        let i = self.n;
        self.live[i] = true;
        self.key[i] = k;
        self.val[i] = v;
        self.n += 1;
        i
    }
    /// Index of the minimum (key, then earliest insertion), if any.
    fn min(&self) -> Option<usize> {
        let mut best: Option<usize> = None;
        let mut i = 0;
        while i < MAXN {
            if i < self.n && self.live[i] {
                best = match best {
                    None => Some(i),
                    Some(b) => if self.key[i] < self.key[b] { Some(i) } else { Some(b) },
                };
            }
            i += 1;
        }
        best
    }
    fn len(&self) -> usize {
        let mut c = 0;
        let mut i = 0;
        while i < MAXN {
            if i < self.n && self.live[i] { c += 1; }
            i += 1;
        }
        c
    }
}

fn any_key_small() -> (u8, u8) {
    // 3-value alphabet in each component: forces many ties.
    let a: u8 = kani::any();
    let b: u8 = kani::any();
    kani::assume(a < 3 && b < 2);
    (a, b)
}

fn any_key_full() -> (u8, u8) {
    (kani::any(), kani::any())
}


/// One *concrete* operation shape (`ops`: 0 insert, 1 pull; `peek` is checked after every op) on the real
/// `PriorityQueue<(u8,u8), u8>`; every key and value is symbolic.  The container
/// sizes are concrete per shape (CBMC cannot cope with symbolic `Vec` growth);
/// the driver enumerates all shapes up to the stated length.
fn pq_shape(ops: &[u8], full: bool, expect_tie: bool) {
    let mut q: PriorityQueue<(u8, u8), u8> = PriorityQueue::new();
    let mut r: RefQ<(u8, u8)> = RefQ::new((0, 0));
    let mut pulled_tie = false;
    let mut pulls = 0;
    let mut i = 0;
    while i < ops.len() {
        let op = ops[i];
        if op == 0 {
            let k = if full { any_key_full() } else { any_key_small() };
            let v: u8 = kani::any();
            q.insert(k, v);
            r.insert(k, v);
        } else {
            let got = q.pull();
            match r.min() {
                None => assert!(got.is_none()),
                Some(m) => {
                    let mut j = 0;
                    while j < MAXN {
                        if j < r.n && j != m && r.live[j] && r.key[j] == r.key[m] { pulled_tie = true; }
                        j += 1;
                    }
                    r.live[m] = false;
                    pulls += 1;
                    match got {
                        None => assert!(false),
                        Some((k, v)) => {
                            assert!(k == r.key[m]);
                            assert!(v == r.val[m]);
                        }
                    }
                }
            }
        }
        // `peek` is checked after every operation (it does not change the queue).
        {
            let got = q.peek();
            match r.min() {
                None => assert!(got.is_none()),
                Some(m) => match got {
                    None => assert!(false),
                    Some((k, v)) => {
                        assert!(*k == r.key[m]);
                        assert!(*v == r.val[m]);
                    }
                },
            }
        }
        i += 1;
    }
    kani::cover!(pulled_tie || !expect_tie, "a pull resolved a tie between equal keys (when the shape allows one)");
    kani::cover!(true, "end of shape reached");
    core::mem::forget(q);
}

/// Concrete shape on the real `IndexedPriorityQueue<u8,u8>`:
/// 0 insert, 1 pull, 2 peek(+peek_key), 10+w extract through the w-th key ever
/// issued (live or stale — concrete per shape), 3 extract through a forged
/// (slab index, epoch) pair assumed different from every live key.
fn ipq_shape(ops: &[u8], full: bool) {
    let mut q: IndexedPriorityQueue<u8, u8> = IndexedPriorityQueue::new();
    let mut r: RefQ<u8> = RefQ::new(0);
    let mut keys: [(usize, u64); MAXN] = [(0, 0); MAXN];
    let mut i = 0;
    while i < ops.len() {
        let op = ops[i];
        if op == 0 {
            let k: u8 = kani::any();
            if !full { kani::assume(k < 3); }
            let v: u8 = kani::any();
            let ik = q.insert(k, v);
            let idx = r.insert(k, v);
            keys[idx] = ik.into_raw_parts();
            let mut j = 0;
            while j < MAXN {
                if j < idx { assert!(keys[j] != keys[idx]); }
                j += 1;
            }
        } else if op == 1 {
            let got = q.pull();
            match r.min() {
                None => assert!(got.is_none()),
                Some(m) => {
                    r.live[m] = false;
                    match got {
                        None => assert!(false),
                        Some((k, v)) => { assert!(k == r.key[m]); assert!(v == r.val[m]); }
                    }
                }
            }
        } else if op == 2 {
            let got = q.peek();
            match r.min() {
                None => assert!(got.is_none()),
                Some(m) => match got {
                    None => assert!(false),
                    Some((k, v)) => { assert!(*k == r.key[m]); assert!(*v == r.val[m]); }
                },
            }
            let gk = q.peek_key();
            match r.min() {
                None => assert!(gk.is_none()),
                Some(m) => match gk { None => assert!(false), Some(k) => assert!(*k == r.key[m]) },
            }
        } else if op >= 10 {
            let w = (op - 10) as usize;
            if w < r.n {
                let (si, ep) = keys[w];
                let got = q.extract(InsertKey::from_raw_parts(si, ep));
                if r.live[w] {
                    r.live[w] = false;
                    match got {
                        None => assert!(false),
                        Some((k, v)) => { assert!(k == r.key[w]); assert!(v == r.val[w]); }
                    }
                } else {
                    assert!(got.is_none());
                }
            }
        } else {
            let si: usize = kani::any();
            let ep: u64 = kani::any();
            kani::assume(si < MAXN + 1);
            let mut j = 0;
            while j < MAXN {
                if j < r.n && r.live[j] { kani::assume(keys[j] != (si, ep)); }
                j += 1;
            }
            let got = q.extract(InsertKey::from_raw_parts(si, ep));
            assert!(got.is_none());
        }
        assert!(q.len() == r.len());
        i += 1;
    }
    kani::cover!(true, "end of shape reached");
    core::mem::forget(q);
}

// ---- generated harnesses (one per shape) are appended below by the driver ----
