//! C13 / C05 / C19 — task lifecycle.  One handle operation from an ARBITRARY state of the task word that satisfies the
//! representation invariant (RI) of `executor/task.rs` (phase table), on the real task code.
//!
//! RI:  REF = number of live {Promise, CancelToken, Waker} handles (held here, plus a symbolic surplus standing for
//!      handles held by other threads, which this harness never drops);
//!      a Runnable exists  <=>  POLLING && (WAKE != 0 || CLOSED);
//!      core holds the future <=> POLLING,  the output <=> !POLLING && !CLOSED,  nothing <=> !POLLING && CLOSED.
//! The concrete prefix of each harness brings the real task into the phase (so `core` really holds what the phase says);
//! then the counters of the state word are overwritten with symbolic values consistent with RI and the handles held.
use std::future::Future;
use std::pin::Pin;
use std::sync::atomic::Ordering;
use std::task::{Context, Poll, Waker};

use crate::executor::verif_task::verif_access as acc;
use crate::executor::verif_task::{spawn, CancelToken, Promise, Runnable};

static mut FUT_DROPS: u32 = 0;
static mut OUT_DROPS: u32 = 0;
static mut POLLS: u32 = 0;
static mut SCHED_CALLS: u32 = 0;
static mut SCHED_SLOT: Option<Runnable> = None;
static mut IN_POLL: bool = false;
static mut READY_AT: u32 = 0; // the future completes at its READY_AT-th poll (0: never)
static mut SAVE_WAKER: bool = false;
static mut SAVED_WAKER: Option<Waker> = None;
/// operation injected inside `poll` (a wake/cancel issued "by another thread" while the task is being polled); concrete
static mut INJECT: u8 = 0;
static mut INJECT_TOKEN: Option<CancelToken> = None;
static mut INJECTED: bool = false;
static mut TASK_PTR: *const () = std::ptr::null();

pub(crate) struct Out;
impl Drop for Out {
    fn drop(&mut self) {
        unsafe { OUT_DROPS += 1 }
    }
}

pub(crate) struct Fut;
impl Drop for Fut {
    fn drop(&mut self) {
        unsafe {
            // C13: the future is never dropped while it is being polled
            assert!(!IN_POLL, "future dropped while being polled");
            FUT_DROPS += 1;
        }
    }
}
impl Future for Fut {
    type Output = Out;
    fn poll(self: Pin<&mut Self>, cx: &mut Context<'_>) -> Poll<Out> {
        unsafe {
            // C05/C13: polled by at most one party at a time, never after completion / cancellation
            assert!(!IN_POLL, "poll overlaps another poll");
            assert!(FUT_DROPS == 0, "future polled after it was dropped");
            assert!(READY_AT == 0 || POLLS < READY_AT, "future polled after completion");
            IN_POLL = true;
            POLLS += 1;
            if SAVE_WAKER && SAVED_WAKER.is_none() {
                SAVED_WAKER = Some(cx.waker().clone());
            }
            if INJECT == 4 && POLLS <= 2 {
                // one wake during the first poll and one more during the re-poll it causes
                INJECTED = true;
                acc::wake_by_ref::<Fut, S, ()>(TASK_PTR);
            } else if INJECT != 0 && !INJECTED {
                INJECTED = true;
                // wakes are issued through the real wake code directly (acc::wake_by_ref -> Task::wake_by_ref), not
                // through the Waker's function-pointer table (CBMC would consider `run` itself as a possible target)
                if INJECT == 1 {
                    acc::wake_by_ref::<Fut, S, ()>(TASK_PTR);
                } else if INJECT == 2 {
                    if let Some(t) = INJECT_TOKEN.take() {
                        t.cancel();
                    }
                } else if INJECT == 3 {
                    acc::wake_by_ref::<Fut, S, ()>(TASK_PTR);
                    acc::wake_by_ref::<Fut, S, ()>(TASK_PTR);
                }
            }
            IN_POLL = false;
            if READY_AT != 0 && POLLS >= READY_AT {
                Poll::Ready(Out)
            } else {
                Poll::Pending
            }
        }
    }
}

fn sched(r: Runnable, _tag: ()) {
    unsafe {
        SCHED_CALLS += 1;
        // C05: never a second Runnable while one exists
        assert!(SCHED_SLOT.is_none(), "a second Runnable was scheduled");
        assert!(!IN_POLL || INJECTED, "scheduled from inside poll");
        SCHED_SLOT = Some(r);
    }
}

type S = fn(Runnable, ());

fn state_of(ptr: *const ()) -> u64 {
    unsafe { acc::state::<Fut, S, ()>(ptr).load(Ordering::Relaxed) }
}
fn set_state(ptr: *const (), s: u64) {
    unsafe { acc::state::<Fut, S, ()>(ptr).store(s, Ordering::Relaxed) }
}
fn refs(s: u64) -> u64 {
    (s & acc::REF_MASK) / acc::REF_INC
}
fn wakes(s: u64) -> u64 {
    (s & acc::WAKE_MASK) / acc::WAKE_INC
}
fn polling(s: u64) -> bool {
    s & acc::POLLING != 0
}
fn closed(s: u64) -> bool {
    s & acc::CLOSED != 0
}
fn mk(polling: bool, closed: bool, refs: u64, wakes: u64) -> u64 {
    (if polling { acc::POLLING } else { 0 }) | (if closed { acc::CLOSED } else { 0 }) | refs * acc::REF_INC | wakes * acc::WAKE_INC
}

fn sched_fn() -> S {
    sched
}

/// spawn the real task; returns (promise, runnable, token, task pointer)
fn fresh() -> (Promise<Out>, Runnable, CancelToken, *const ()) {
    // `sched` is coerced to a fn pointer type S: the real code requires a zero-sized S only for wake-by-value;
    // harnesses that wake by value use `fresh_zst`.
    let (p, r, c) = spawn(Fut, sched_fn(), ());
    let ptr = r.verif_task_ptr();
    unsafe { TASK_PTR = ptr };
    (p, r, c, ptr)
}

fn any_surplus() -> u64 {
    let x: u64 = kani::any();
    kani::assume(x <= 2);
    x
}
fn any_wakes(lo: u64) -> u64 {
    let w: u64 = kani::any();
    kani::assume(w >= lo && w <= 3);
    w
}

// ======================================================================================= Polling (scheduled): Runnable exists

/// Runnable::run from Polling-scheduled, future Pending, no concurrent activity:
/// -> Polling-idle, wake count 0, exactly one poll, nothing dropped, references untouched.
#[kani::proof]
#[kani::unwind(4)]
fn c13_run_pending_from_scheduled() {
    let (p, r, c, ptr) = fresh();
    let x = any_surplus();
    let w = any_wakes(1);
    set_state(ptr, mk(true, false, 2 + x, w));
    unsafe { READY_AT = 0 };
    r.run();
    let s = state_of(ptr);
    unsafe {
        assert!(POLLS == 1);
        assert!(FUT_DROPS == 0 && OUT_DROPS == 0);
        assert!(SCHED_CALLS == 0);
    }
    assert!(polling(s) && !closed(s));
    assert!(wakes(s) == 0);
    assert!(refs(s) == 2 + x);
    kani::cover!(w == 3 && x == 2);
    core::mem::forget((p, c));
}

/// Runnable::run from Polling-scheduled, future Ready at the first poll:
/// -> Completed (future dropped once, output kept), or — if no reference is left — output dropped and task freed.
#[kani::proof]
#[kani::unwind(4)]
fn c13_run_ready_from_scheduled() {
    let (p, r, c, ptr) = fresh();
    let x = any_surplus();
    let w = any_wakes(1);
    set_state(ptr, mk(true, false, 2 + x, w));
    unsafe { READY_AT = 1 };
    r.run();
    let s = state_of(ptr);
    unsafe {
        assert!(POLLS == 1);
        assert!(FUT_DROPS == 1);
        assert!(OUT_DROPS == 0);
        assert!(SCHED_CALLS == 0);
    }
    assert!(!polling(s) && !closed(s));
    assert!(refs(s) == 2 + x);
    // the promise now yields the output exactly once
    match p.poll() {
        acc::Stage::Ready(o) => drop(o),
        _ => assert!(false, "promise not ready after completion"),
    }
    unsafe { assert!(OUT_DROPS == 1) };
    match p.poll() {
        acc::Stage::Cancelled => {}
        _ => assert!(false, "output handed out twice"),
    }
    let s2 = state_of(ptr);
    assert!(!polling(s2) && closed(s2) && refs(s2) == 2 + x);
    core::mem::forget((p, c));
}

/// Runnable::run when the only references were already released (REF = 0, e.g. spawn_and_forget + token dropped):
/// Ready -> future and output each dropped once, task freed (no access afterwards);  Pending -> future dropped, freed.
#[kani::proof]
#[kani::unwind(4)]
fn c13_run_last_owner() {
    let (p, r, c, ptr) = fresh();
    let w = any_wakes(1);
    let ready: bool = kani::any();
    set_state(ptr, mk(true, false, 0, w));
    core::mem::forget((p, c)); // the handles were released earlier (REF = 0 says so)
    unsafe { READY_AT = if ready { 1 } else { 0 } };
    r.run();
    unsafe {
        assert!(POLLS == 1);
        assert!(FUT_DROPS == 1);
        assert!(OUT_DROPS == if ready { 1 } else { 0 });
    }
    kani::cover!(ready);
    kani::cover!(!ready);
}

/// Wind-down: Runnable::run (or drop) after the task was cancelled while scheduled -> no poll, future dropped exactly once,
/// CLOSED && !POLLING afterwards; freed when no reference is left.
#[kani::proof]
#[kani::unwind(4)]
fn c13_run_or_drop_in_winddown() {
    let (p, r, c, ptr) = fresh();
    let x = any_surplus();
    let w = any_wakes(0);
    let run: bool = kani::any();
    // the token was consumed by cancel(): REF counts the promise + surplus only
    set_state(ptr, mk(true, true, 1 + x, w));
    core::mem::forget(c);
    if run {
        r.run();
    } else {
        drop(r);
    }
    unsafe {
        assert!(POLLS == 0, "cancelled task was polled");
        assert!(FUT_DROPS == 1);
        assert!(OUT_DROPS == 0);
        assert!(SCHED_CALLS == 0);
    }
    let s = state_of(ptr);
    assert!(!polling(s) && closed(s) && refs(s) == 1 + x);
    kani::cover!(run && w == 0);
    kani::cover!(!run && w == 3);
    core::mem::forget(p);
}

/// Dropping the Runnable of a scheduled, not cancelled task == cancellation (C19: executor drop).
#[kani::proof]
#[kani::unwind(4)]
fn c13_drop_runnable_scheduled() {
    let (p, r, c, ptr) = fresh();
    let x = any_surplus();
    let w = any_wakes(1);
    set_state(ptr, mk(true, false, 2 + x, w));
    drop(r);
    unsafe {
        assert!(POLLS == 0);
        assert!(FUT_DROPS == 1 && OUT_DROPS == 0);
    }
    let s = state_of(ptr);
    assert!(!polling(s) && closed(s) && refs(s) == 2 + x);
    // the promise reports cancellation, the token can still be cancelled/dropped without touching the future again
    match p.poll() {
        acc::Stage::Cancelled => {}
        _ => assert!(false),
    }
    c.cancel();
    unsafe { assert!(FUT_DROPS == 1 && OUT_DROPS == 0) };
    let s2 = state_of(ptr);
    assert!(refs(s2) == 1 + x);
    core::mem::forget(p);
}

/// CancelToken::cancel while a Runnable exists: the future is NOT dropped now (the Runnable owns it), CLOSED is set,
/// the token's reference is released; the Runnable then drops it exactly once.
#[kani::proof]
#[kani::unwind(4)]
fn c13_cancel_while_scheduled() {
    let (p, r, c, ptr) = fresh();
    let x = any_surplus();
    let w = any_wakes(1);
    let then_run: bool = kani::any();
    set_state(ptr, mk(true, false, 2 + x, w));
    c.cancel();
    unsafe { assert!(FUT_DROPS == 0, "future dropped under a live Runnable") };
    let s = state_of(ptr);
    assert!(polling(s) && closed(s) && refs(s) == 1 + x && wakes(s) == w);
    if then_run {
        r.run();
    } else {
        drop(r);
    }
    unsafe { assert!(POLLS == 0 && FUT_DROPS == 1 && OUT_DROPS == 0) };
    let s2 = state_of(ptr);
    assert!(!polling(s2) && closed(s2) && refs(s2) == 1 + x);
    core::mem::forget(p);
}

/// Dropping token and promise while a Runnable exists never touches the core; the Runnable (last owner) releases everything.
#[kani::proof]
#[kani::unwind(4)]
fn c13_drop_handles_while_scheduled() {
    let (p, r, c, ptr) = fresh();
    let w = any_wakes(1);
    let ready: bool = kani::any();
    set_state(ptr, mk(true, false, 2, w));
    drop(c);
    drop(p);
    unsafe { assert!(FUT_DROPS == 0 && OUT_DROPS == 0) };
    let s = state_of(ptr);
    assert!(polling(s) && !closed(s) && refs(s) == 0 && wakes(s) == w);
    unsafe { READY_AT = if ready { 1 } else { 0 } };
    r.run();
    unsafe {
        assert!(FUT_DROPS == 1);
        assert!(OUT_DROPS == if ready { 1 } else { 0 });
    }
}

// ======================================================================================= wake-ups

/// A wake issued WHILE the task is being polled leads to another poll by the same Runnable (no second Runnable, no lost wake).
/// The counters are concrete per harness instance (W wake count before, X surplus references, N wakes injected): with a
/// symbolic state word CBMC cannot prune the (infeasible) scheduling path inside the injected wake and follows its
/// over-approximated function-pointer targets recursively (DESIGN.md §2).
fn wake_during_poll<const W: u64, const X: u64, const N: u8>() {
    let (p, r, c, ptr) = fresh();
    set_state(ptr, mk(true, false, 2 + X, W));
    unsafe {
        READY_AT = 0;
        INJECT = N; // wake_by_ref once (1) / twice (3) from inside the first poll
    }
    r.run();
    unsafe {
        assert!(POLLS == 2, "a wake-up issued during poll must lead to exactly one more poll");
        assert!(SCHED_CALLS == 0, "woken while running: must re-poll, not schedule a second Runnable");
        assert!(FUT_DROPS == 0 && OUT_DROPS == 0);
    }
    let s = state_of(ptr);
    assert!(polling(s) && !closed(s) && wakes(s) == 0 && refs(s) == 2 + X);
    core::mem::forget((p, c));
}

#[kani::proof]
#[kani::unwind(5)]
fn c13_wake_during_poll_repolls_w1() {
    wake_during_poll::<1, 0, 1>();
}

#[kani::proof]
#[kani::unwind(5)]
fn c13_wake_during_poll_repolls_w3x2() {
    wake_during_poll::<3, 2, 1>();
}

#[kani::proof]
#[kani::unwind(5)]
fn c13_wake_during_poll_repolls_twice() {
    wake_during_poll::<2, 1, 3>();
}

/// A wake during the first poll AND another one during the re-poll it causes: the task is still being polled by the same
/// Runnable during the re-poll, so the second wake must lead to a third poll by that Runnable, never to a second Runnable.
#[kani::proof]
#[kani::unwind(6)]
fn c13_wake_during_repoll() {
    let (p, r, c, ptr) = fresh();
    set_state(ptr, mk(true, false, 2, 1));
    unsafe {
        READY_AT = 0;
        INJECT = 4;
    }
    r.run();
    unsafe {
        assert!(SCHED_CALLS == 0, "woken during the re-poll: must poll again, not schedule a second Runnable");
        assert!(POLLS == 3, "each wake-up issued during a poll leads to one more poll");
        assert!(FUT_DROPS == 0 && OUT_DROPS == 0);
    }
    let s = state_of(ptr);
    assert!(polling(s) && !closed(s) && wakes(s) == 0 && refs(s) == 2);
    core::mem::forget((p, c));
}

/// A cancellation issued WHILE the task is being polled: no further poll, the Runnable drops the future once.
#[kani::proof]
#[kani::unwind(5)]
fn c13_cancel_during_poll() {
    let (p, r, c, ptr) = fresh();
    let x = any_surplus();
    let w = any_wakes(1);
    set_state(ptr, mk(true, false, 2 + x, w));
    unsafe {
        READY_AT = 0;
        INJECT = 2;
        INJECT_TOKEN = Some(c);
    }
    r.run();
    unsafe {
        assert!(POLLS == 1);
        assert!(FUT_DROPS == 1 && OUT_DROPS == 0);
        assert!(SCHED_CALLS == 0);
    }
    let s = state_of(ptr);
    assert!(!polling(s) && closed(s) && refs(s) == 1 + x);
    core::mem::forget(p);
}

/// Polling-idle (no Runnable): a wake by reference schedules exactly one Runnable; a second wake does not; running it polls again.
#[kani::proof]
#[kani::unwind(5)]
fn c13_wake_idle_schedules_once() {
    let (p, r, c, ptr) = fresh();
    unsafe {
        READY_AT = 0;
        SAVE_WAKER = true;
    }
    r.run(); // -> Polling-idle, the future keeps a clone of its waker
    let x = any_surplus();
    // handles: promise, token, saved waker
    set_state(ptr, mk(true, false, 3 + x, 0));
    let wk = unsafe { SAVED_WAKER.take().unwrap() };
    unsafe { SAVE_WAKER = false };
    wk.wake_by_ref();
    unsafe { assert!(SCHED_CALLS == 1, "wake of an idle task must schedule it") };
    let s = state_of(ptr);
    assert!(polling(s) && !closed(s) && wakes(s) == 1 && refs(s) == 3 + x);
    wk.wake_by_ref();
    unsafe { assert!(SCHED_CALLS == 1, "already scheduled: no second Runnable") };
    assert!(wakes(state_of(ptr)) == 2);
    let r2 = unsafe { SCHED_SLOT.take().unwrap() };
    r2.run();
    unsafe { assert!(POLLS == 2 && FUT_DROPS == 0) };
    let s2 = state_of(ptr);
    assert!(polling(s2) && wakes(s2) == 0 && refs(s2) == 3 + x);
    core::mem::forget((p, c, wk));
}

/// Waker clone / drop only move the reference count; dropping the last reference of an idle task drops the future and frees it.
#[kani::proof]
#[kani::unwind(5)]
fn c13_waker_clone_drop_idle() {
    let (p, r, c, ptr) = fresh();
    unsafe {
        READY_AT = 0;
        SAVE_WAKER = true;
    }
    r.run();
    let x = any_surplus();
    set_state(ptr, mk(true, false, 3 + x, 0));
    let wk = unsafe { SAVED_WAKER.take().unwrap() };
    let wk2 = wk.clone();
    assert!(refs(state_of(ptr)) == 4 + x);
    drop(wk2);
    assert!(refs(state_of(ptr)) == 3 + x);
    drop(c);
    drop(p);
    unsafe { assert!(FUT_DROPS == 0) };
    assert!(refs(state_of(ptr)) == 1 + x);
    if x == 0 {
        drop(wk); // last reference, no Runnable: future dropped, task freed
        unsafe { assert!(FUT_DROPS == 1 && OUT_DROPS == 0 && SCHED_CALLS == 0) };
    } else {
        core::mem::forget(wk);
    }
    kani::cover!(x == 0);
}

/// Cancel of an idle task drops the future immediately (exactly once); later wakes schedule nothing (C19: tasks waking one
/// another while the executor is being dropped cannot resurrect a cancelled task).
#[kani::proof]
#[kani::unwind(5)]
fn c13_cancel_idle_then_wake() {
    let (p, r, c, ptr) = fresh();
    unsafe {
        READY_AT = 0;
        SAVE_WAKER = true;
    }
    r.run();
    let x = any_surplus();
    let w: u64 = 0;
    set_state(ptr, mk(true, false, 3 + x, w));
    let wk = unsafe { SAVED_WAKER.take().unwrap() };
    c.cancel();
    unsafe { assert!(FUT_DROPS == 1 && OUT_DROPS == 0) };
    let s = state_of(ptr);
    assert!(!polling(s) && closed(s) && refs(s) == 2 + x);
    wk.wake_by_ref();
    unsafe { assert!(SCHED_CALLS == 0, "wake after cancellation must not schedule") };
    match p.poll() {
        acc::Stage::Cancelled => {}
        _ => assert!(false),
    }
    drop(p);
    if x == 0 {
        drop(wk);
        unsafe { assert!(FUT_DROPS == 1 && OUT_DROPS == 0) };
    } else {
        core::mem::forget(wk);
    }
}

// ======================================================================================= Completed

/// Completed: wakes schedule nothing; the output is released exactly once by whoever drops the last reference,
/// unless the promise took it.
#[kani::proof]
#[kani::unwind(5)]
fn c13_completed_release() {
    let (p, r, c, ptr) = fresh();
    unsafe {
        READY_AT = 1;
        SAVE_WAKER = true;
    }
    r.run(); // -> Completed; the (dropped) future had cloned its waker
    let wk = unsafe { SAVED_WAKER.take().unwrap() };
    let w = any_wakes(0);
    set_state(ptr, mk(false, false, 3, w));
    wk.wake_by_ref();
    unsafe { assert!(SCHED_CALLS == 0, "wake of a completed task must not schedule") };
    let take: bool = kani::any();
    let order: u8 = kani::any();
    kani::assume(order < 3);
    if take {
        match p.poll() {
            acc::Stage::Ready(o) => drop(o),
            _ => assert!(false),
        }
        unsafe { assert!(OUT_DROPS == 1) };
    }
    // release the three handles in a symbolic order
    if order == 0 {
        drop(p);
        c.cancel();
        drop(wk);
    } else if order == 1 {
        drop(wk);
        drop(p);
        drop(c);
    } else {
        c.cancel();
        drop(wk);
        drop(p);
    }
    unsafe {
        assert!(FUT_DROPS == 1);
        assert!(OUT_DROPS == 1, "output must be released exactly once");
    }
    kani::cover!(take && order == 2);
    kani::cover!(!take && order == 0);
}

/// Wind-down (cancelled while a Runnable exists, any wake count INCLUDING 0): releasing the remaining handles — even the
/// last reference — never touches the future, which the Runnable still owns; the Runnable then releases it exactly once.
#[kani::proof]
#[kani::unwind(5)]
fn c13_release_handles_in_winddown() {
    let (p, r, c, ptr) = fresh();
    unsafe {
        READY_AT = 0;
        SAVE_WAKER = true;
    }
    // bring a waker clone into existence through a first poll, then put the task back into a scheduled state
    r.run();
    unsafe { SAVE_WAKER = false };
    let wk = unsafe { SAVED_WAKER.take().unwrap() };
    wk.wake_by_ref();
    let r2 = unsafe { SCHED_SLOT.take().unwrap() };
    let w = any_wakes(0);
    let x = any_surplus();
    // Wind-down: POLLING | CLOSED; the token was consumed by cancel(); live handles: promise + waker (+ surplus)
    set_state(ptr, mk(true, true, 2 + x, w));
    core::mem::forget(c);
    let first: bool = kani::any();
    if first {
        drop(p);
        drop(wk);
    } else {
        drop(wk);
        drop(p);
    }
    unsafe { assert!(FUT_DROPS == 0 && OUT_DROPS == 0, "a handle released the future that the live Runnable owns") };
    let s = state_of(ptr);
    assert!(polling(s) && closed(s) && refs(s) == x && wakes(s) == w);
    let run: bool = kani::any();
    if run {
        r2.run();
    } else {
        drop(r2);
    }
    unsafe { assert!(POLLS == 1 && FUT_DROPS == 1 && OUT_DROPS == 0) };
    kani::cover!(w == 0 && x == 0 && run);
}

// ======================================================================================= wake by value (zero-sized scheduling function)

fn by_val_body<Sz>(s: Sz, only_handle: bool)
where
    Sz: Fn(Runnable, ()) + Send + Sync + 'static,
{
    let (p, r, c) = spawn(Fut, s, ());
    let ptr = r.verif_task_ptr();
    unsafe {
        TASK_PTR = ptr;
        READY_AT = 2;
    }
    r.run(); // first poll: Pending -> Polling-idle
    let st = unsafe { acc::state::<Fut, Sz, ()>(ptr) };
    let x = if only_handle { 0 } else { any_surplus() };
    // the waker consumed by the by-value wake is one reference; promise and token are either live or already released
    let base = if only_handle { 0 } else { 2 };
    st.store(mk(true, false, base + 1 + x, 0), Ordering::Relaxed);
    // promise and token are never dropped here: either they stay live or they count as released earlier
    let _keep = core::mem::ManuallyDrop::new((p, c));
    unsafe { acc::wake_by_val::<Fut, Sz, ()>(ptr) };
    unsafe {
        assert!(SCHED_CALLS == 1, "by-value wake of an idle task must schedule it");
        assert!(FUT_DROPS == 0 && OUT_DROPS == 0, "by-value wake released the core although a Runnable now owns the task");
    }
    let s1 = st.load(Ordering::Relaxed);
    assert!(polling(s1) && !closed(s1) && wakes(s1) == 1 && refs(s1) == base + x);
    let r2 = unsafe { SCHED_SLOT.take().unwrap() };
    r2.run(); // second poll: Ready
    unsafe {
        assert!(POLLS == 2);
        assert!(FUT_DROPS == 1);
        assert!(OUT_DROPS == if only_handle { 1 } else { 0 });
    }
}

/// Wake by value (consumes the waker's reference) of an idle task: schedules one Runnable, never releases the core.
#[kani::proof]
#[kani::unwind(5)]
fn c13_wake_by_value_idle() {
    by_val_body(sched, false);
}

/// ... also when the consumed waker was the ONLY handle: the Runnable just scheduled becomes the last owner.
#[kani::proof]
#[kani::unwind(5)]
fn c13_wake_by_value_only_handle() {
    by_val_body(sched, true);
}
