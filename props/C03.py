"""C03 — Exactly-once delivery to every connected recipient (E2 on the real message plane)."""
from vlib import common as C
from vlib import msgprop as MP

PROP = "C03"


def run(tier, only=None):
    ev, rc = MP.run(PROP, tier, ("C03:",), only=only)
    ev.write({0: "held on everything explored", 1: "violation", 2: "inconclusive"}[rc])
    return rc


def replay(path):
    return MP.replay(PROP, path)
