"""C20 — priority queues: stable minimum extraction, non-aliasing keys.

Part A (E1, Kani): the real `PriorityQueue<(u8,u8),u8>` on the real std BinaryHeap: every operation shape over
        {insert, pull} up to the bound (peek after every operation), keys/values symbolic, vs a reference model.
Part B (E2, MIRSE): the real `PriorityQueue` and `IndexedPriorityQueue` code from the MIR, symbolic operation sequences,
        symbolic keys AND a symbolic starting epoch counter (arbitrary history length), vs obligations over the keys;
        `extract` through every key ever issued (stale ones included) and through forged keys.
"""
import itertools
import json
import os
import subprocess

import z3

from vlib import common as C
from vlib import kaniprop as KP
from vlib import scnprop as SP
from vlib.mirse.models import Models
from vlib.mirse.values import Agg, Cell, I, Ptr

PROP = "C20"
FILES = ["nexosim/src/util/priority_queue.rs", "nexosim/src/util/indexed_priority_queue.rs"]


# ------------------------------------------------------------------------------------------------ part A: Kani


def pq_shapes(L):
    out = []
    for ops in itertools.product((0, 1), repeat=L):
        n = 0
        empty_pulls = 0
        tie = False
        for o in ops:
            if o == 0:
                n += 1
            else:
                if n == 0:
                    empty_pulls += 1
                else:
                    if n >= 2:
                        tie = True
                    n -= 1
        if empty_pulls > 1:
            continue
        out.append((ops, tie))
    return out


def gen_pq(L, full, tag):
    src, names = [], []
    for ops, tie in pq_shapes(L):
        name = f"c20_pq_{tag}_" + "".join("ip"[o] for o in ops)
        names.append(name)
        arr = ",".join(str(o) for o in ops)
        src.append(f"#[kani::proof]\n#[kani::unwind(10)]\nfn {name}() {{ pq_shape(&[{arr}], {'true' if full else 'false'}, {'true' if tie else 'false'}); }}\n")
    return names, "\n".join(src)


# ------------------------------------------------------------------------------------------------ part B: MIRSE


def make_models():
    return Models()


def _ref(v, tag="t"):
    return Ptr(Cell(v, tag=tag), (), "ref")


def _set_field(agg, name, val):
    agg.fields[agg.meta.index(name)] = val


def _lt_entry(a, b):
    """(key, seq) of a strictly before (key, seq) of b"""
    return z3.Or(z3.ULT(a["k"], b["k"]), z3.And(a["k"] == b["k"], a["seq"] < b["seq"]))


def _check_min(it, entries, got_val, label, what):
    """`got_val` (concrete id) must designate the live entry that is least by (key, insertion order)"""
    live = [e for e in entries if e["live"]]
    cand = [e for e in live if e["id"] == got_val]
    if not cand:
        it.check(False, label, f"{what}: returned value {got_val} is not a live entry")
        return None
    g = cand[0]
    for e in live:
        if e is not g:
            it.check(_lt_entry(g, e), label, f"{what}: entry {g['id']} returned although entry {e['id']} has a smaller key or equal key and earlier insertion")
    return g


def on_path_end(it, exc):
    """a panic (index out of bounds, unwrap on the wrong node kind, arithmetic overflow) or an unbounded loop inside an operation"""
    from vlib.mirse.interp import LoopBound, Violation
    kind = "C20:operation-returns" if isinstance(exc, LoopBound) else "C20:no-panic"
    vals = it.model_values() or {}
    v = Violation(kind, vals, list(it.trace), f"{it.env.get('witness')}: {exc}")
    v.witness = it.env.get("witness")
    it.violations.append(v)


def scenario_pq(it, params):
    n = params["nops"]
    ops = []
    it.env["witness"] = dict(queue="pq", ops=ops)
    pq = it.call_fn("PriorityQueue", None, "new", [])
    e0 = it.sym("epoch0", "u64")
    it.assume(z3.ULE(e0.v, (1 << 64) - 2 - n))
    _set_field(pq, "next_epoch", e0)   # arbitrarily long history: the counter may have any value
    cell = Cell(pq, tag="pq")
    q = Ptr(cell, (), "ref")
    entries = []
    first = params.get("first")
    for i in range(n):
        k = first if (i == 0 and first is not None) else it.choose(3, "op")
        if k == 0:
            key = it.sym(f"k{i}", "u64")
            ops.append(["insert", f"k{i}", i])
            it.call_fn("PriorityQueue", None, "insert", [q, key, I(i, "u32")])
            entries.append(dict(id=i, k=key.v, seq=len(entries), live=True))
        elif k == 1:
            ops.append(["pull"])
            r = it.call_fn("PriorityQueue", None, "pull", [q])
            if not any(e["live"] for e in entries):
                it.check(r.variant == "None", "C20:pull-empty", f"op {i}")
            else:
                it.check(r.variant == "Some", "C20:pull-nonempty", f"op {i}: pull returned None on a non-empty queue")
                if r.variant == "Some":
                    kv = r.fields[0]
                    g = _check_min(it, entries, kv.fields[1].concrete(), "C20:pull-least-key-fifo", f"op {i} pull")
                    if g:
                        it.check(kv.fields[0].v == g["k"], "C20:pull-returns-its-key", f"op {i}")
                        g["live"] = False
        else:
            ops.append(["peek"])
            r = it.call_fn("PriorityQueue", None, "peek", [q])
            if not any(e["live"] for e in entries):
                it.check(r.variant == "None", "C20:peek-empty", f"op {i}")
            else:
                it.check(r.variant == "Some", "C20:peek-nonempty", f"op {i}")
                if r.variant == "Some":
                    kv = r.fields[0]
                    val = it.load(kv.fields[1])
                    g = _check_min(it, entries, val.concrete(), "C20:peek-least-key-fifo", f"op {i} peek")


def scenario_ipq(it, params):
    n = params["nops"]
    ops = []
    it.env["witness"] = dict(queue="ipq", ops=ops)
    pq = it.call_fn("IndexedPriorityQueue", None, "new", [])
    e0 = it.sym("epoch0", "u64")
    it.assume(z3.ULE(e0.v, (1 << 64) - 2 - n))
    _set_field(pq, "next_epoch", e0)
    cell = Cell(pq, tag="ipq")
    q = Ptr(cell, (), "ref")
    entries = []   # id, k, seq, live, key (InsertKey value)
    first = params.get("first")
    for i in range(n):
        k = first if (i == 0 and first is not None) else it.choose(5, "op")
        live = [e for e in entries if e["live"]]
        if k == 0:
            key = it.sym(f"k{i}", "u64")
            ops.append(["insert", f"k{i}", i])
            ik = it.call_fn("IndexedPriorityQueue", None, "insert", [q, key, I(i, "u32")])
            raw = it.call_fn("InsertKey", None, "into_raw_parts", [ik])
            # a key never equals one issued before
            for e in entries:
                it.check(z3.Not(z3.And(raw.fields[0].v == e["raw"][0], raw.fields[1].v == e["raw"][1])), "C20:insert-keys-unique",
                         f"op {i}: the key of entry {i} equals the key issued for entry {e['id']}")
            entries.append(dict(id=i, k=key.v, seq=len(entries), live=True, raw=(raw.fields[0].v, raw.fields[1].v)))
        elif k == 1:
            ops.append(["pull"])
            r = it.call_fn("IndexedPriorityQueue", None, "pull", [q])
            if not live:
                it.check(r.variant == "None", "C20:pull-empty", f"op {i}")
            else:
                it.check(r.variant == "Some", "C20:pull-nonempty", f"op {i}")
                if r.variant == "Some":
                    kv = r.fields[0]
                    g = _check_min(it, entries, kv.fields[1].concrete(), "C20:pull-least-key-fifo", f"op {i} pull")
                    if g:
                        it.check(kv.fields[0].v == g["k"], "C20:pull-returns-its-key", f"op {i}")
                        g["live"] = False
        elif k == 2:
            ops.append(["peek"])
            r = it.call_fn("IndexedPriorityQueue", None, "peek", [q])
            rk = it.call_fn("IndexedPriorityQueue", None, "peek_key", [q])
            if not live:
                it.check(r.variant == "None" and rk.variant == "None", "C20:peek-empty", f"op {i}")
            else:
                it.check(r.variant == "Some" and rk.variant == "Some", "C20:peek-nonempty", f"op {i}")
                if r.variant == "Some":
                    kv = r.fields[0]
                    g = _check_min(it, entries, it.load(kv.fields[1]).concrete(), "C20:peek-least-key-fifo", f"op {i} peek")
                    if g and rk.variant == "Some":
                        it.check(it.load(rk.fields[0]).v == g["k"], "C20:peek-key", f"op {i}")
        elif k == 3:
            if not entries:
                continue
            w = it.choose(len(entries), "which-key")
            e = entries[w]
            ops.append(["extract", e["id"]])
            ik = it.call_fn("InsertKey", None, "from_raw_parts", [I(e["raw"][0], "usize"), I(e["raw"][1], "u64")])
            r = it.call_fn("IndexedPriorityQueue", None, "extract", [q, ik])
            if e["live"]:
                it.check(r.variant == "Some", "C20:extract-live", f"op {i}: extract through the key of live entry {e['id']} returned None")
                if r.variant == "Some":
                    kv = r.fields[0]
                    it.check(kv.fields[1].concrete() == e["id"], "C20:key-designates-only-its-entry", f"op {i}: extract(key of {e['id']}) removed entry {kv.fields[1].concrete()}")
                    it.check(kv.fields[0].v == e["k"], "C20:extract-returns-its-key", f"op {i}")
                    for x in entries:
                        if x["id"] == kv.fields[1].concrete():
                            x["live"] = False
            else:
                it.check(r.variant == "None", "C20:key-designates-only-its-entry",
                         f"op {i}: stale key of entry {e['id']} removed " + (f"entry {r.fields[0].fields[1].concrete()}" if r.variant == "Some" else "nothing"))
                if r.variant == "Some":
                    for x in entries:
                        if x["id"] == r.fields[0].fields[1].concrete():
                            x["live"] = False
        else:
            # forged key: arbitrary (slab index, epoch) different from every live key
            si, ep = it.sym(f"fs{i}", "usize"), it.sym(f"fe{i}", "u64")
            it.assume(z3.ULE(si.v, len(entries) + 1))
            for e in live:
                it.assume(z3.Not(z3.And(si.v == e["raw"][0], ep.v == e["raw"][1])))
            ops.append(["forged", f"fs{i}", f"fe{i}"])
            ik = it.call_fn("InsertKey", None, "from_raw_parts", [si, ep])
            r = it.call_fn("IndexedPriorityQueue", None, "extract", [q, ik])
            it.check(r.variant == "None", "C20:key-designates-only-its-entry", f"op {i}: a key that was never issued for a live entry removed one")
            if r.variant == "Some":
                for x in entries:
                    if x["id"] == r.fields[0].fields[1].concrete():
                        x["live"] = False
        ln = it.call_fn("IndexedPriorityQueue", None, "len", [q])
        it.check(ln.v == sum(1 for e in entries if e["live"]), "C20:len", f"after op {i}")


REPLAY_SRC = r'''
// ---- appended by /verif for native replay (cfg(test) only) ----
#[cfg(test)]
mod verif_replay {
    use super::*;
    #[test]
    fn verif_pq_script() {
        let path = match std::env::var("VERIF_SCRIPT") { Ok(p) => p, Err(_) => return };
        let text = std::fs::read_to_string(path).unwrap();
        println!("VERIF-TRACE-BEGIN");
        let mut q = __NEW__;
        for l in text.lines() {
            let t: Vec<&str> = l.split_whitespace().collect();
            if t.is_empty() { continue; }
            match t[0] {
                "epoch" => q.next_epoch = t[1].parse().unwrap(),
                __OPS__
                _ => panic!("op"),
            }
        }
        println!("VERIF-TRACE-END");
    }
}
'''
PQ_OPS = r'''
                "insert" => q.insert(t[1].parse::<u64>().unwrap(), t[2].parse::<u32>().unwrap()),
                "pull" => println!("r {:?}", q.pull()),
                "peek" => println!("r {:?}", q.peek()),
'''
IPQ_OPS = r'''
                "insert" => { let k = q.insert(t[1].parse::<u64>().unwrap(), t[2].parse::<u32>().unwrap()); println!("key {:?}", k.into_raw_parts()); }
                "pull" => println!("r {:?}", q.pull()),
                "peek" => println!("r {:?}", q.peek()),
                "extract" => println!("r {:?}", q.extract(InsertKey::from_raw_parts(t[1].parse().unwrap(), t[2].parse().unwrap()))),
'''


def _native(work, job, v, d):
    """replay inside the crate (the queues are crate-private): a cfg(test) module is appended to the overlay copy"""
    import re
    import shutil
    w, vals = v["witness"], v["vals"]
    crate = work.sync_overlay("ovn")
    which = w["queue"]
    rel = "src/util/priority_queue.rs" if which == "pq" else "src/util/indexed_priority_queue.rs"
    src = REPLAY_SRC.replace("__NEW__", "PriorityQueue::<u64, u32>::new()" if which == "pq" else "IndexedPriorityQueue::<u64, u32>::new()")
    src = src.replace("__OPS__", PQ_OPS if which == "pq" else IPQ_OPS)
    with open(os.path.join(crate, rel), "a") as f:
        f.write(src)
    # script + reference evaluation on the concrete values
    lines = [f"epoch {vals.get('epoch0', 0)}"]
    entries, expect = [], []
    symkeys = {}
    for op in w["ops"]:
        live = [e for e in entries if e["live"]]
        mn = min(live, key=lambda e: (e["k"], e["seq"])) if live else None
        if op[0] == "insert":
            kv = vals.get(op[1], 0)
            lines.append(f"insert {kv} {op[2]}")
            entries.append(dict(id=op[2], k=kv, seq=len(entries), live=True))
        elif op[0] == "pull":
            lines.append("pull")
            expect.append(None if mn is None else (mn["k"], mn["id"]))
            if mn:
                mn["live"] = False
        elif op[0] == "peek":
            lines.append("peek")
            expect.append(None if mn is None else (mn["k"], mn["id"]))
        elif op[0] == "extract":
            lines.append(f"extract @{op[1]}")
            e = [x for x in entries if x["id"] == op[1]][0]
            expect.append((e["k"], e["id"]) if e["live"] else None)
            e["live"] = False
        elif op[0] == "forged":
            lines.append(f"extract {vals.get(op[1], 0)} {vals.get(op[2], 0)}")
            expect.append(None)
    # the real keys are only known at run time: `extract @id` is resolved by a first pass that records the issued keys
    spath = os.path.join(d, "script.txt")
    exe_cmd = ["cargo", "test", "--offline", "--lib", "--target-dir", work.sub("native-target"), "verif_pq_script", "--", "--nocapture"]

    def run_script(ls):
        open(spath, "w").write("\n".join(ls) + "\n")
        rc, out = C.run(exe_cmd, cwd=crate, env=C.env_offline({"VERIF_SCRIPT": spath}), timeout=1500)
        return out

    if any("@" in l for l in lines):
        out = run_script([l for l in lines if not l.startswith("extract")])
        issued = re.findall(r"key \((\d+), (\d+)\)", out)
        ids = [op[2] for op in w["ops"] if op[0] == "insert"]
        keyof = {i: k for i, k in zip(ids, issued)}
        lines = [(f"extract {keyof[int(l.split('@')[1])][0]} {keyof[int(l.split('@')[1])][1]}" if "@" in l and int(l.split('@')[1]) in keyof else l) for l in lines]
    out = run_script(lines)
    open(os.path.join(d, "native_trace.txt"), "w").write(out[-6000:])
    got = []
    for ln in out.splitlines():
        if ln.startswith("r "):
            m = re.search(r"Some\(\((\d+), (\d+)\)\)", ln)
            got.append(None if "None" in ln and not m else (int(m.group(1)), int(m.group(2))) if m else "?")
    open(os.path.join(d, "README.txt"), "w").write(
        f"Counterexample for C20 ({v['label']}): script.txt replayed inside the crate by a cfg(test) module appended to {rel} "
        f"in the overlay.\nexpected results {expect}\nobserved results {got}\nRe-run: ./check C20 --replay {d}\n")
    if "VERIF-TRACE-END" not in out and "panicked" not in out:
        return None
    return got != expect


def run(tier, only=None):
    ev = C.Evidence(PROP, tier)
    ev.cov["source_sha256"] = C.source_hashes(FILES)
    rc = C.EXIT_OK
    # ---- part A
    if not only or only.startswith("c20_"):
        plan = [(5, False, "s5"), (4, True, "f4")] if tier == "quick" else [(7, False, "s7"), (6, True, "f6")]
        names, gens = [], []
        for L, full, tag in plan:
            n, g = gen_pq(L, full, tag)
            names += n
            gens.append(g)
        if only:
            names = [n for n in names if only in n]
        rca, res = KP.run_kani_property(PROP, tier, ev, modules=["c20"], harnesses=names, generated={"c20": "\n".join(gens)},
                                        describe=lambda n: {"kani_shape": n.split("_")[-1], "keys": "symbolic"}, role_of=lambda n: "pq-order",
                                        jobs=14, harness_timeout_s=240)
        rc = max(rc, rca) if rca != C.EXIT_VIOLATION else C.EXIT_VIOLATION
        ev.cov["bounds"]["kani"] = [f"all insert/pull sequences of length {L} (peek after every op), keys {'full (u8,u8)' if full else '{0,1,2}x{0,1}'}"
                                    for L, full, _ in plan]
    # ---- part B
    if not only or not only.startswith("c20_"):
        # measured: every additional operation multiplies the paths by ~8 (8 / 7 operations did not finish in 20 min per job)
        npq, nipq = (6, 5) if tier == "quick" else (7, 6)
        bud = 1200 if tier == "quick" else 5000
        jobs = []
        for f in range(3):
            jobs.append(dict(scenario="scenario_pq", params=dict(nops=npq, first=f), budget_s=bud, max_paths=2000000))
        for f in range(5):
            jobs.append(dict(scenario="scenario_ipq", params=dict(nops=nipq, first=f), budget_s=bud, max_paths=2000000))
        rcb = SP.run(PROP, tier, ev, "props.C20", jobs, native_replay=_native)
        if rcb == C.EXIT_VIOLATION or rc == C.EXIT_OK:
            rc = rcb if rcb != C.EXIT_OK else rc
        ev.cov["bounds"]["mirse"] = {
            "PriorityQueue<u64,u32>": f"every sequence of {npq} operations over {{insert(k), pull, peek}}, keys symbolic u64, starting epoch counter symbolic",
            "IndexedPriorityQueue<u64,u32>": f"every sequence of {nipq} operations over {{insert(k), pull, peek/peek_key, extract(any key ever issued), "
                                             f"extract(forged (slab index, epoch))}}, keys and starting epoch symbolic",
        }
    ev.cov["functions_encoded"] = list(ev.cov.get("functions_encoded", [])) + [
        "kani: util::priority_queue::{PriorityQueue::{new,insert,pull,peek}, Item::{cmp,partial_cmp,eq}} + std BinaryHeap (real std code)"]
    ev.cov["outside_claim"] = ["sequences longer than the bounds", "key types other than (u8,u8) [Kani] / u64 [MIRSE]",
                               "next_epoch reaching u64::MAX (assert_ne! panics by design)",
                               "MIRSE specifies std::collections::BinaryHeap as 'pop/peek return a maximal element w.r.t. the element's own "
                               "partial_cmp' (the real heap is exercised by part A)", "grpc/key_registry.rs (behind a non-default feature)"]
    ev.assumptions += ["reference model in harness/kani/c20.rs", "Kani's model of the allocator (no allocation failure)"]
    ev.write({0: "held on everything explored", 1: "violation", 2: "inconclusive"}[rc])
    return rc


def replay(path):
    if os.path.exists(os.path.join(path, "counterexample.json")):
        ce = json.load(open(os.path.join(path, "counterexample.json")))
        work = C.WorkDir("mirse-C20")
        try:
            ok = _native(work, dict(params=ce["params"]), dict(witness=ce["witness"], vals=ce["values"], label=ce["obligation"]), path)
            if ok:
                C.log(f"VIOLATION property={PROP} replay={path}")
                return C.EXIT_VIOLATION
            return C.EXIT_OK if ok is False else C.EXIT_INCONCLUSIVE
        finally:
            work.close()
    from vlib import replay as R
    return R.replay_kani(PROP, path)
