"""C20 — priority queues: stable minimum extraction, non-aliasing keys.

E1 (Kani) on the real `PriorityQueue<(u8,u8),u8>`: every operation *shape* over {insert, pull} up to the bound
(peek checked after every operation), all keys/values symbolic, compared with a reference model.
The indexed queue (`IndexedPriorityQueue`) is decided by E2 (MIRSE) — see props/C20 part B.
"""
import itertools

from vlib import common as C
from vlib import kaniprop as KP

PROP = "C20"
FILES = ["nexosim/src/util/priority_queue.rs", "nexosim/src/util/indexed_priority_queue.rs"]


def pq_shapes(L):
    """All sequences in {0=insert,1=pull}^L with at most one pull on an empty queue and at most MAXN inserts.
    (Shorter sequences are prefixes of these; assertions are checked after every step.)"""
    out = []
    for ops in itertools.product((0, 1), repeat=L):
        n = 0
        empty_pulls = 0
        tie = False
        for o in ops:
            if o == 0:
                n += 1
            else:
                if n == 0:
                    empty_pulls += 1
                else:
                    if n >= 2:
                        tie = True
                    n -= 1
        if empty_pulls > 1:
            continue
        out.append((ops, tie))
    return out


def gen_pq(L, full, tag):
    src = []
    names = []
    for ops, tie in pq_shapes(L):
        name = f"c20_pq_{tag}_" + "".join("ip"[o] for o in ops)
        names.append(name)
        arr = ",".join(str(o) for o in ops)
        src.append(
            f"#[kani::proof]\n#[kani::unwind(10)]\nfn {name}() {{ pq_shape(&[{arr}], {'true' if full else 'false'}, {'true' if tie else 'false'}); }}\n"
        )
    return names, "\n".join(src)


def run(tier, only=None):
    ev = C.Evidence(PROP, tier)
    ev.cov["source_sha256"] = C.source_hashes(FILES)
    if tier == "quick":
        plan = [(5, False, "s5"), (4, True, "f4")]
    else:
        plan = [(7, False, "s7"), (6, True, "f6")]
    names, gens = [], []
    for L, full, tag in plan:
        n, g = gen_pq(L, full, tag)
        names += n
        gens.append(g)
    if only:
        names = [n for n in names if only in n]
    ev.cov["functions_encoded"] = [
        "util::priority_queue::PriorityQueue::{new,insert,pull,peek}", "util::priority_queue::Item::{cmp,partial_cmp,eq}",
        "std BinaryHeap::{push,pop,peek} (real std code, compiled by kani)",
    ]
    ev.cov["bounds"] = {
        "shapes": [f"all insert/pull sequences of length {L} (peek after every op), keys {'full (u8,u8)' if full else '{0,1,2}x{0,1}'}, values any u8"
                   for L, full, _ in plan],
        "unwind": 10, "instantiation": "PriorityQueue<(u8,u8), u8>",
    }
    ev.cov["outside_claim"] = ["sequences longer than the bound", "key types other than (u8,u8)",
                               "next_epoch reaching u64::MAX (assert_ne! panics by design)"]
    ev.assumptions = ["reference model in harness/kani/c20.rs (linear scan for the least (key, insertion number))",
                      "Kani's model of the allocator (no allocation failure)"]

    def describe(name):
        return {"shape": name.split("_")[-1], "keys": "symbolic", "oracle": "pull/peek == reference minimum, FIFO among equal keys"}

    rc, res = KP.run_kani_property(PROP, tier, ev, modules=["c20"], harnesses=names, generated={"c20": "\n".join(gens)},
                                   describe=describe, role_of=lambda n: "pq-order", jobs=14, harness_timeout_s=240)
    ev.cov["exhaustive"] = False
    status = {0: "held on everything explored", 1: "violation", 2: "inconclusive"}[rc]
    ev.write(status)
    return rc


def replay(path):
    from vlib import replay as R
    return R.replay_kani(PROP, path)
