"""C14 — Query replies matched and ordered; port clones share links (E2 on the real message plane)."""
from vlib import common as C
from vlib import msgprop as MP

PROP = "C14"


def run(tier, only=None):
    ev, rc = MP.run(PROP, tier, ("C14:",), only=only)
    ev.write({0: "held on everything explored", 1: "violation", 2: "inconclusive"}[rc])
    return rc


def replay(path):
    return MP.replay(PROP, path)
