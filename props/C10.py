"""C10 — periodic actions fire exactly at t0 + k*period (E2)."""
from vlib import drvprop as DP
from vlib.family import run_prop
from vlib.shapes import S, STEP, UNTIL, dedup, job, steppers

PROP = "C10"
GROUPS = {"C01", "C10", "C09"}


def shapes(tier):
    J = []
    n = 3
    for dl in ("abs", "rel"):
        for st in steppers(n, dls=("abs", "rel")):
            J.append(job([S("periodic", 1, dl=dl)] + st, max_steps=3))
        for st in steppers(2, dls=("abs",)):
            nu = sum(1 for c in st if c["op"] == "until")
            if nu == 2 and tier == "quick":
                continue  # two series under two step_until: thorough tier
            J.append(job([S("periodic", 1, dl=dl), S("periodic", 2, dl="abs", origin=1)] + st, max_steps=3 if nu < 2 else 2))
            J.append(job([S("kperiodic", 1, dl=dl), S("periodic", 2, dl="rel")] + st, max_steps=3 if nu < 2 else 2))
    # coinciding occurrences of several series of one origin whose sends have to suspend (full mailbox): no occurrence is lost
    for o in (0, 1):
        J.append(job([S("periodic", 1, origin=o), S("periodic", 2, origin=o), S("periodic", 3, origin=o), STEP, STEP], pending=True))
        J.append(job([S("periodic", 1, origin=o), S("periodic", 2, origin=o, dl="rel"), UNTIL("abs")], pending=True, max_steps=3))
    # "... until it is cancelled": a cancelled series stops, also when it shares its deadline and origin with other series
    for c_at in (3, 4):
        sc = [S("periodic", 1), S("periodic", 2), S("kperiodic", 3)]
        tail = [STEP, STEP, STEP]
        tail.insert(c_at - 3, dict(op="cancel", key=3))
        J.append(job(sc + tail))
    J.append(job([S("kperiodic", 1), STEP, dict(op="cancel", key=1), STEP, UNTIL("rel")], max_steps=3))
    J.append(job([S("periodic", 1), STEP, STEP, STEP, STEP, STEP]))
    J.append(job([S("periodic", 1), UNTIL("abs")], max_steps=6))
    if tier == "thorough":
        for st in steppers(4, dls=("abs",)):
            if sum(1 for c in st if c["op"] == "until") > 1:
                continue
            J.append(job([S("periodic", 1), S("periodic", 2, dl="rel")] + st, max_steps=4))
        for st in steppers(2, dls=("abs", "rel")):
            if sum(1 for c in st if c["op"] == "until") > 1:
                continue
            J.append(job([S("periodic", 1), S("periodic", 2, dl="rel", origin=1), S("periodic", 3, origin=2)] + st, max_steps=3))
        J.append(job([S("periodic", 1), UNTIL("abs")], max_steps=9))
    return dedup(J)


def run(tier, only=None):
    return run_prop(PROP, GROUPS, tier, shapes(tier), {
        "shapes": "1-2 (thorough: 3) periodic series with symbolic first deadline and period (down to 1 ns; 0 is rejected, see C08), every "
                  "partition of the horizon into <= 3 (thorough: 4) step/step_until commands",
        "occurrences": "<= 3-6 (thorough: 9) distinct due times per step_until; each executed occurrence k is checked against t0 + k*p, "
                       "each non-executed next occurrence against the reached time",
    }, only=only)


def replay(path):
    return DP.replay(PROP, path, GROUPS)
