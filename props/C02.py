"""C02 — Causal message ordering (E2 on the real message plane, task-poll granularity)."""
from vlib import common as C
from vlib import msgprop as MP

PROP = "C02"


def run(tier, only=None):
    ev, rc = MP.run(PROP, tier, ("C02:",), only=only)
    ev.write({0: "held on everything explored", 1: "violation", 2: "inconclusive"}[rc])
    return rc


def replay(path):
    return MP.replay(PROP, path)
