"""C15 — simulation time reads are never torn and never go backwards (E3: axiomatic C11 over the real seqlock MIR)."""
import json
import os
import time

import z3

from vlib import common as C
from vlib import drvprop as DP
from vlib.mirse import axc11 as AX
from vlib.mirse import interp as IN
from vlib.mirse.models import Models, deref_all, none, some
from vlib.mirse.values import Agg, Cell, I, Ptr, unit

PROP = "C15"
FILES = ["nexosim/src/util/sync_cell.rs", "nexosim/src/time/monotonic_time.rs"]


def make_models():
    M = AX.install_models(Models())
    # a timestamp is the pair of its two components here (they are stored in two separate atomics and may be torn)
    M.extra.update({
        "TaiTime::as_secs": lambda it, cal, args: deref_all(it, args[0]).fields[0],
        "TaiTime::subsec_nanos": lambda it, cal, args: deref_all(it, args[0]).fields[1],
        "TaiTime::new": lambda it, cal, args: some(Agg("TaiTime", [args[0], args[1]])),
    })
    return M


def _ref(v, tag="t"):
    return Ptr(Cell(v, tag=tag), (), "ref")


def tval(it, k):
    return Agg("TaiTime", [it.sym(f"w{k}s", "i64"), it.sym(f"w{k}n", "u32")])


def build_shared(it):
    tat = it.call_fn("TearableAtomicTime", None, "new", [tval(it, 0)])
    cell = it.call_fn("SyncCell", None, "new", [tat])
    cref = _ref(cell, "synccell")
    reader = it.call_fn("SyncCell", None, "reader", [cref])
    flag = it.call("AtomicUsize::new", [I(0, "usize")])
    return dict(cell=cref, reader=_ref(reader, "reader"), flag=_ref(flag, "flag"))


def ORD(name):
    return Agg("atomic::Ordering", [], variant=name)


def writer_body(nw, publish):
    def body(it, sh):
        for k in range(1, nw + 1):
            it.call_fn("SyncCell", None, "write", [sh["cell"], tval(it, k)])
            if publish:
                it.call("Atomic::<usize>::store", [sh["flag"], I(k, "usize"), ORD("Release")])
        # the writer's own unsynchronised read returns its last write
        own = it.call_fn("SyncCell", None, "read", [sh["cell"]])
        return ("own", own.fields[0], own.fields[1])
    return body


def reader_body(nr, publish):
    def body(it, sh):
        outs = []
        for j in range(nr):
            f = None
            if publish == "read":
                # the blocking read(): retries try_read until it succeeds (bounded by the loop bound; longer spins are cut)
                v = it.call_fn("SyncCellReader", None, "read", [sh["reader"]])
                outs.append(("Ok", v.fields[0], v.fields[1], None))
                continue
            if publish:
                f = it.call("Atomic::<usize>::load", [sh["flag"], ORD("Acquire")])
            r = it.call_fn("SyncCellReader", None, "try_read", [sh["reader"]])
            if r.variant == "Ok":
                outs.append(("Ok", r.fields[0].fields[0], r.fields[0].fields[1], f))
            else:
                outs.append(("Err", None, None, f))
        return outs
    return body


def violation_fn(nw):
    def fn(ex, combo):
        W = [(z3.BitVec(f"w{k}s", 64), z3.BitVec(f"w{k}n", 32)) for k in range(nw + 1)]
        # written times pairwise differ in BOTH components, so that a torn pair is distinguishable from every written one
        for a in range(nw + 1):
            ex.s.add(z3.ULT(W[a][1], 1_000_000_000))   # a MonotonicTime always has nanos < 10^9
            for b in range(a + 1, nw + 1):
                ex.s.add(W[a][0] != W[b][0], W[a][1] != W[b][1])
        viols = []
        own = combo[0]["out"]
        viols.append(("C15:writer-reads-its-last-write", z3.Not(z3.And(own[1].v == W[nw][0], own[2].v == W[nw][1]))))
        for p in combo[1:]:
            idx_prev = None
            for j, o in enumerate(p["out"]):
                if o[0] != "Ok":
                    continue
                s, n, f = o[1].v, o[2].v, o[3]
                is_k = [z3.And(s == W[k][0], n == W[k][1]) for k in range(nw + 1)]
                viols.append((f"C15:never-torn", z3.Not(z3.Or(is_k))))
                idx = z3.Int(f"idx_{id(p)}_{j}")
                ex.s.add(z3.Or([z3.And(idx == k, is_k[k]) for k in range(nw + 1)] + [z3.And(idx == -1, z3.Not(z3.Or(is_k)))]))
                if idx_prev is not None:
                    viols.append(("C15:never-older-than-already-observed", z3.And(idx >= 0, idx_prev >= 0, idx < idx_prev)))
                if f is not None:
                    # the reader saw publication flag f: the value may not be older than write f
                    viols.append(("C15:never-older-than-published", z3.And(idx >= 0, z3.BV2Int(f.v) > idx)))
                idx_prev = idx
        return viols
    return fn


LOOM_SRC = r'''
// ---- appended by /verif for replay under loom (cfg(all(test, nexosim_loom)) only) ----
#[cfg(all(test, nexosim_loom))]
mod verif_loom_replay {
    use super::*;
    use loom::model::Builder;
    use loom::thread;

    struct Pair { a: AtomicUsize, b: AtomicUsize }
    impl TearableAtomic for Pair {
        type Value = (usize, usize);
        fn tearable_load(&self) -> (usize, usize) { (self.a.load(Ordering::Relaxed), self.b.load(Ordering::Relaxed)) }
        fn tearable_store(&self, v: (usize, usize)) { self.a.store(v.0, Ordering::Relaxed); self.b.store(v.1, Ordering::Relaxed); }
    }

    #[test]
    fn verif_loom_seqlock_client() {
        let mut builder = Builder::new();
        if builder.preemption_bound.is_none() { builder.preemption_bound = Some(4); }
        builder.check(move || {
            let cell = SyncCell::new(Pair { a: AtomicUsize::new(10), b: AtomicUsize::new(20) });
            let reader = cell.reader();
            let th = thread::spawn(move || {
                let mut last = 0;
                for _ in 0..2 {
                    if let Ok(v) = reader.try_read() {
                        let k = match v { (10, 20) => 0, (11, 21) => 1, (12, 22) => 2, _ => panic!("torn read {:?}", v) };
                        assert!(k >= last, "time went backwards: {} after {}", k, last);
                        last = k;
                    }
                }
            });
            cell.write((11, 21));
            cell.write((12, 22));
            assert_eq!(cell.read(), (12, 22));
            th.join().unwrap();
        });
    }
}
'''


NATIVE_SRC = r'''
// ---- appended by /verif: sequential native replay of a C15 witness (cfg(test) only) ----
#[cfg(all(test, not(nexosim_loom)))]
mod verif_c15_native {
    use crate::time::{MonotonicTime, TearableAtomicTime};
    use crate::util::sync_cell::SyncCell;

    #[test]
    fn verif_c15_roundtrip() {
        // VERIF_TIMES = "secs:nanos,secs:nanos,...": the initial time and the written times of the witness
        let spec = match std::env::var("VERIF_TIMES") { Ok(s) => s, Err(_) => return };
        let times: Vec<MonotonicTime> = spec.split(',').filter_map(|p| {
            let mut it = p.split(':');
            let s: i64 = it.next()?.parse().ok()?;
            let n: u32 = it.next()?.parse().ok()?;
            MonotonicTime::new(s, n)
        }).collect();
        if times.is_empty() { return; }
        let cell = SyncCell::new(TearableAtomicTime::new(times[0]));
        let reader = cell.reader();
        assert_eq!(cell.read(), times[0], "VERIF-ROUNDTRIP initial time read back wrong");
        for t in &times[1..] {
            cell.write(*t);
            assert_eq!(cell.read(), *t, "VERIF-ROUNDTRIP the writer does not read back the time it wrote");
            assert_eq!(reader.try_read().ok(), Some(*t), "VERIF-ROUNDTRIP a quiescent reader does not see the last written time");
        }
    }
}
'''


def native_roundtrip(work, d, values, nw):
    """a witness in which the writer (alone) reads back something else than it wrote is sequential: replay it natively
    with the solver's values"""
    times = []
    for k in range(nw + 1):
        s, n = values.get(f"w{k}s"), values.get(f"w{k}n")
        if s is None or n is None:
            return None
        s = s - (1 << 64) if s >= (1 << 63) else s
        if not (0 <= n < 1_000_000_000):
            return None
        times.append(f"{s}:{n}")
    crate = work.sync_overlay("ovn")
    with open(os.path.join(crate, "src/lib.rs"), "a") as f:
        f.write(NATIVE_SRC)
    rc, out = C.run(["cargo", "test", "--offline", "--lib", "--target-dir", work.sub("native-target"), "verif_c15_roundtrip", "--", "--nocapture"],
                    cwd=crate, env=C.env_offline({"VERIF_TIMES": ",".join(times)}), timeout=1500, log_path=os.path.join(d, "native_roundtrip.log"))
    if "VERIF-ROUNDTRIP" in out and "test result: FAILED" in out:
        return True
    if "test result: ok" in out:
        return False
    return None


def loom_replay(work, d):
    """replay oracle: the same client program (and the repository's own loom tests of the seqlock) under loom"""
    crate = work.sync_overlay("ovl")
    with open(os.path.join(crate, "src/util/sync_cell.rs"), "a") as f:
        f.write(LOOM_SRC)
    rc, out = C.run(["cargo", "test", "--offline", "--lib", "--release", "--target-dir", work.sub("loom-target"), "sync_cell::", "--", "--test-threads", "4"],
                    cwd=crate, env=C.env_offline({"RUSTFLAGS": "--cfg nexosim_loom", "LOOM_MAX_PREEMPTIONS": "4"}), timeout=2400,
                    log_path=os.path.join(d, "loom_replay.log"))
    if "test result: FAILED" in out:
        return True
    if "test result: ok" in out:
        return False
    return None


def run(tier, only=None):
    ev = C.Evidence(PROP, tier)
    ev.cov["source_sha256"] = C.source_hashes(FILES)
    work = C.WorkDir("mirse-C15")
    try:
        mir, src_root, mir_s = DP.dump_mir(work)
        if not mir:
            C.log(f"INCONCLUSIVE property={PROP} build: MIR dump failed")
            ev.write("inconclusive: MIR dump failed")
            return C.EXIT_INCONCLUSIVE
        P = IN.Program(mir, src_root)
        ev.cov["engines"] += ["mirse (MIR symbolic executor)", "axc11 (axiomatic C11 release/acquire model in z3 %s)" % DP._z3ver()]
        progs = [(1, 1, 1, False), (2, 1, 2, False), (2, 1, 2, True), (2, 1, 1, "read")] if tier == "quick" else \
                [(1, 1, 1, False), (2, 1, 2, False), (2, 1, 2, True), (2, 1, 1, "read"), (3, 1, 2, False), (2, 2, 1, False), (3, 1, 2, True),
                 (2, 2, 2, True), (3, 1, 1, "read")]
        rc = C.EXIT_OK
        all_funcs = {}
        for (nw, nreaders, nr, publish) in progs:
            t0 = time.time()
            try:
                wpaths, st1 = AX.collect_thread(P, make_models, 0, build_shared, writer_body(nw, publish is True))
                threads = [wpaths]
                stats = [st1]
                for r in range(nreaders):
                    rp, st = AX.collect_thread(P, make_models, 1 + r, build_shared, reader_body(nr, publish), loop_bound=4)
                    if publish == "read":
                        rp = [p for p in rp if p.get("aborted") != "LoopBound"]   # more than 3 failed attempts: outside the bound
                    threads.append(rp)
                    stats.append(st)
                init_locs = wpaths[0]["locs"]
                res, info = AX.check_program(threads, init_locs, violation_fn(nw))
            except IN.Unsupported as e:
                C.log(f"[{PROP}] inconclusive: program W={nw} readers={nreaders}x{nr} publish={publish}: {e}")
                ev.notes.append(f"inconclusive: {e}")
                rc = max(rc, C.EXIT_INCONCLUSIVE)
                continue
            for st in stats:
                ev.cov["states"] += st.paths
                ev.cov["transitions"] += st.steps
                for k, v in st.funcs.items():
                    all_funcs[k] = all_funcs.get(k, 0) + v
            ev.cov["queries"] += info["queries"]
            ev.cov["solver_time_s"] += info["solver_s"]
            ev.cov["obligations"] += info["queries"]
            desc = dict(program=f"writer: {nw} write(s){' + flag.store(k, Release)' if publish is True else ''}; {nreaders} reader(s): {nr} x "
                                f"{'flag.load(Acquire); ' if publish is True else ''}{'read() (<= 3 attempts)' if publish == 'read' else 'try_read()'}",
                        thread_paths=[len(t) for t in threads],
                        path_combinations=info["combos"], queries=info["queries"], events=sum(len(p["events"]) for t in threads for p in t[:1]),
                        solver_s=round(info["solver_s"], 2), wall_s=round(time.time() - t0, 1), verdict=res)
            if res == "unsat":
                ev.cov["discharged"] += info["queries"]
                ev.add_sample(desc)
                C.log(f"[{PROP}] {desc['program']}: no C11-consistent execution violates the property ({info['combos']} path combinations, {info['queries']} queries, {info['solver_s']:.1f}s)")
            else:
                label = info["kind"]
                C.log(f"[{PROP}] {desc['program']}: C11 execution violating {label}:")
                for l in info["events"]:
                    C.log("     " + l)
                d = C.replay_dir(PROP, f"W{nw}R{nreaders}x{nr}{'p' if publish else ''}-{label.split(':')[-1]}")
                json.dump(dict(property=PROP, obligation=label, program=desc["program"], execution=info["events"], values=info.get("values"),
                               outputs=info.get("outs")), open(os.path.join(d, "counterexample.json"), "w"), indent=1, default=str)
                open(os.path.join(d, "README.txt"), "w").write(
                    f"C11 execution found by the solver for {desc['program']} violating {label} (counterexample.json lists the events with their "
                    f"reads-from sources and modification order).\nx86 cannot exhibit most C11-only behaviours natively; the witness is re-checked "
                    f"by running the same client program and the repository's own seqlock loom tests under loom (loom_replay.log).\n"
                    f"Re-run: ./check C15 --replay {d}\n")
                kf = C.known_finding_for(PROP, label)
                rep = None
                if label.endswith("writer-reads-its-last-write") and info.get("values"):
                    rep = native_roundtrip(work, d, info["values"], nw)
                if not rep:
                    rep = loom_replay(work, d)
                if rep:
                    if kf:
                        C.log(f"KNOWN-FINDING: property={PROP} {kf.get('what', label)}")
                    else:
                        ev.violations += 1
                        C.log(f"VIOLATION property={PROP} replay={d}")
                        rc = C.EXIT_VIOLATION
                else:
                    C.log(f"INCONCLUSIVE property={PROP} {label}: the solver's C11 execution was not reproduced by loom (replay={rep}); witness kept in {d}")
                    ev.notes.append(f"non-reproducing C11 witness for {label}")
                    rc = max(rc, C.EXIT_INCONCLUSIVE) if rc != C.EXIT_VIOLATION else rc
                break
        ev.cov["functions_encoded"] = sorted(k for k in all_funcs if not k.endswith("]"))
        ev.cov["bounds"] = {"client_programs": [f"writer {nw} write(s), {nrd} reader(s) x {nr} " +
                                                ("read() (<= 3 attempts)" if pb == "read" else f"try_read(){', publication flag (Release/Acquire)' if pb else ''}")
                                                for (nw, nrd, nr, pb) in progs],
                            "values": "every written time is symbolic (secs i64, nanos u32), pairwise different in both components",
                            "memory_model": "C11 release/acquire fragment (rf, mo, release sequences, fences, hb, coherence, RMW atomicity, acyclic po U rf); no SeqCst"}
        ev.cov["outside_claim"] = ["more writes / readers / reads than the listed client programs", "read() spinning for more than 3 attempts",
                                   "compiler/hardware behaviours outside the C11 model"]
        ev.assumptions += ["axiomatic model self-tested on litmus shapes (selftest/litmus.py)", "MIR interpreter models of Arc/CachePadded/Deref",
                           "each thread is executed in isolation; loads return unconstrained values that the rf/value axioms tie to writes"]
        ev.write({0: "held on everything explored", 1: "violation", 2: "inconclusive"}[rc])
        return rc
    finally:
        work.close()


def replay(path):
    work = C.WorkDir("mirse-C15")
    try:
        rep = loom_replay(work, path)
        if rep:
            C.log(f"VIOLATION property={PROP} replay={path}")
            return C.EXIT_VIOLATION
        return C.EXIT_OK if rep is False else C.EXIT_INCONCLUSIVE
    finally:
        work.close()
