"""C09 — cancellation takes effect up to the last moment (E2)."""
from vlib import drvprop as DP
from vlib.family import run_prop
from vlib.shapes import CANCEL, DROPAUTO, S, STEP, UNTIL, dedup, job

PROP = "C09"
GROUPS = {"C09", "C01"}


def shapes(tier):
    J = []
    for k in ("keyed", "kperiodic"):
        for dl in ("abs", "rel"):
            # cancel before the due step / through a clone (every cancel goes through a clone of the key) / by dropping an auto key
            for c in (CANCEL(1), DROPAUTO(1)):
                J.append(job([S(k, 1, dl=dl), c, STEP]))
                J.append(job([S(k, 1, dl=dl), S("once", 2), c, STEP, STEP]))
                J.append(job([S(k, 1, dl=dl), S("once", 2), c, UNTIL("abs")], max_steps=3))
                # cancel after firing: no other effect
                J.append(job([S(k, 1, dl=dl), STEP, c, STEP, S("once", 2, dl="rel"), STEP]))
            # cancelled twice
            J.append(job([S(k, 1, dl=dl), CANCEL(1), CANCEL(1), S("once", 2), STEP]))
    # periodic: cancel after k occurrences, then nothing more fires
    J.append(job([S("kperiodic", 1), STEP, STEP, CANCEL(1), STEP, UNTIL("rel")], max_steps=3))
    J.append(job([S("kperiodic", 1), UNTIL("abs"), CANCEL(1), UNTIL("rel")], max_steps=3))
    # cancellation from a handler: earlier step, earlier time inside the same step_until
    for k in ("keyed", "kperiodic"):
        J.append(job([S("once", 1, effect=dict(op="cancel", key=2)), S(k, 2), STEP, STEP]))
        J.append(job([S("once", 1, effect=dict(op="cancel", key=2)), S(k, 2), UNTIL("abs")], max_steps=3))
        J.append(job([S(k, 2), S("once", 1, effect=dict(op="cancel", key=2), origin=1), UNTIL("abs"), STEP], max_steps=3))
    # ... and by an earlier event of the same model at the same time: events on model inputs (event API) are stopped up to
    # the moment the model starts processing them (same origin => same sequential future => the canceller ran first)
    for k in ("keyed", "kperiodic"):
        for o in (0, 1, 2):
            J.append(job([S("once", 1, origin=o, api="event", effect=dict(op="cancel", key=2)), S(k, 2, origin=o, api="event"), STEP, STEP]))
            J.append(job([S("once", 1, origin=o, api="event", effect=dict(op="cancel", key=2)), S(k, 2, origin=o, api="event"), UNTIL("abs")], max_steps=3))
    # three or four actions that may share one deadline and origin, the cancelled one last: the batching loop of one step
    # must filter cancelled actions too
    for k in ("keyed", "kperiodic"):
        for c in (CANCEL(3), DROPAUTO(3)):
            J.append(job([S("once", 1), S("once", 2), S(k, 3), c, STEP, STEP]))
            J.append(job([S("once", 1), S("periodic", 2), S(k, 3), c, UNTIL("abs")], max_steps=2))
        J.append(job([S("once", 1), S("once", 2), S("once", 3), S(k, 4), CANCEL(4), STEP]))
        J.append(job([S("once", 1), S(k, 2), S("once", 3), S(k, 4), CANCEL(2), CANCEL(4), STEP, STEP]))
    # two keys: cancelling one leaves the other alone
    J.append(job([S("keyed", 1), S("keyed", 2, dl="rel"), CANCEL(1), STEP, STEP]))
    J.append(job([S("kperiodic", 1), S("kperiodic", 2), CANCEL(2), UNTIL("abs")], max_steps=3))
    if tier == "thorough":
        for k1 in ("keyed", "kperiodic"):
            for k2 in ("keyed", "kperiodic", "once", "periodic"):
                for c in ([CANCEL(1)], [DROPAUTO(1)], [CANCEL(1), CANCEL(2)] if k2.startswith("k") else [CANCEL(1)]):
                    for st in ([STEP, STEP], [UNTIL("abs")], [STEP, UNTIL("rel")]):
                        J.append(job([S(k1, 1), S(k2, 2, dl="rel", origin=1)] + c + st, max_steps=4))
                        J.append(job([S(k1, 1), S(k2, 2, dl="rel")] + st[:1] + c + st[1:] + [STEP], max_steps=4))
    return dedup(J)


def run(tier, only=None):
    return run_prop(PROP, GROUPS, tier, shapes(tier), {
        "shapes": "keyed one-shot / keyed periodic actions with cancel (through a clone of the key) or drop of an AutoActionKey placed before the "
                  "due step, after firing, twice, after k occurrences, from a handler in an earlier step or at an earlier time of the same "
                  "step_until; second key / unkeyed action alongside",
    }, outside=["the clause 'up to the moment that model starts processing it' for events on model inputs: the re-check lives inside the "
                "send_keyed_event coroutine, which is represented by the environment model, not interpreted"], only=only)


def replay(path):
    return DP.replay(PROP, path, GROUPS)
