"""C05 — model isolation: one computation at a time per model (E1, task layer: at most one Runnable, no overlapping polls)."""
from props import C13 as T

PROP = "C05"


def run(tier, only=None):
    return T.run_for(PROP, tier, only)


def replay(path):
    return T.replay(path, prop=PROP)
