"""C19 — dropping a simulation releases everything exactly once (E1, task layer: cancel/drop paths of the real task code)."""
from props import C13 as T

PROP = "C19"


def run(tier, only=None):
    return T.run_for(PROP, tier, only)


def replay(path):
    from vlib import replay as R
    return R.replay_kani(PROP, path)
