"""C11 — failures are classified correctly and the simulation stays terminated (E2, reduced scope)."""
import itertools

from vlib import drvprop as DP
from vlib.family import run_prop
from vlib.shapes import PROCESS, S, STEP, UNTIL, dedup, job

PROP = "C11"
GROUPS = {"C11"}


def followups(n):
    alpha = [STEP, UNTIL("abs"), UNTIL("rel"), PROCESS(50)]
    out = []
    for k in range(1, n + 1):
        for seq in itertools.product(range(len(alpha)), repeat=k):
            cmds = []
            for j, a in enumerate(seq):
                c = dict(alpha[a])
                if c["op"] == "process":
                    c["id"] = 50 + j
                cmds.append(c)
            out.append(cmds)
    return out


def shapes(tier):
    J = []
    PANIC = dict(op="panic")
    nf = 2 if tier == "quick" else 3
    for fu in followups(nf):
        # a handler panics during a step; queue still holds a later action (non-empty queue) or nothing (empty queue)
        J.append(job([S("once", 1, effect=PANIC), S("once", 2, dl="rel"), STEP] + fu, max_steps=3))
        J.append(job([S("once", 1, effect=PANIC), STEP] + fu, max_steps=3))
        # ... during step_until, with a periodic action pending (path count: short follow-ups only, <= 2 due times per step_until)
        if len(fu) == 1:
            J.append(job([S("once", 1, effect=PANIC), S("periodic", 2, dl="rel"), UNTIL("abs")] + fu, max_steps=2))
        J.append(job([S("once", 1, effect=PANIC), S("once", 2, dl="rel"), UNTIL("abs")] + fu, max_steps=3))
        # the clock reports a lag above the tolerance (OutOfSync is fatal)
        J.append(job([S("once", 1), S("once", 2, dl="rel"), STEP] + fu, tolerance=True, clock=["lag"], max_steps=3))
        J.append(job([S("once", 1), UNTIL("abs")] + fu, tolerance=True, clock=["ok", "lag"], max_steps=3))
    # non-fatal errors leave the simulation usable
    J.append(job([S("once", 1), STEP, UNTIL("abs"), STEP, S("once", 2, dl="rel"), STEP]))
    J.append(job([UNTIL("abs"), S("once", 1), STEP]))
    # panic inside process()
    for fu in followups(1):
        J.append(job([S("once", 2), STEP] + [dict(op="process", id=1, kind="once")] + fu))
    return dedup(J)


def run(tier, only=None):
    return run_prop(PROP, GROUPS, tier, shapes(tier), {
        "shapes": "a fatal error (handler panic of model 'a', or clock lag above the tolerance) during step / step_until, with an empty "
                  "or non-empty scheduler queue, followed by every sequence of <= 2 (thorough: 3) further calls over "
                  "{step, step_until(abs), step_until(rel), process}; plus non-fatal InvalidDeadline",
        "obligations": "the failing call returns Panic{model:'a'} / OutOfSync(lag); every later call returns Terminated, does not "
                       "write the time, call the clock, spawn or run anything; non-fatal errors do not terminate",
    }, outside=["how the executors produce Panic/Timeout/NoRecipient/UnprocessedMessages (catch_unwind, model id capture, helper thread): "
                "the executor is an environment model that reports ExecutorError::Panic(ModelId(0)) when the scripted handler panics",
                "Deadlock/MessageLoss/NoRecipient/Timeout classification (needs the real executor + mailboxes); BadQuery"],
        validate=16 if tier == "quick" else 60, only=only, extra=(lambda ev: attribution(tier, ev)) if not only else None)


def attribution(tier, ev):
    """the ModelId captured by every model task (sub-models included) indexes that model's own qualified name — the
    registration scenario of C06, judged for its C11 obligation only"""
    from props import C06
    from vlib import scnprop as SP
    mm, md = (4, 3) if tier == "quick" else (5, 4)
    jobs = [dict(scenario="scenario_registration", params=dict(tree=t)) for t in C06.trees(mm, md)]
    ev.cov["bounds"]["attribution"] = f"every model hierarchy with <= {mm} models and depth <= {md}: the id a model task reports on failure names that model"
    return SP.run(PROP, tier, ev, "props.C06", jobs, native_replay=C06._native, only_labels=("C11",), work_key="mirse-C11")


def replay(path):
    import json
    import os
    ce = json.load(open(os.path.join(path, "counterexample.json")))
    if "witness" in ce:
        from props import C06
        from vlib import common as C
        work = C.WorkDir("mirse-C11")
        try:
            ok = C06._native(work, dict(params=ce["params"], scenario=ce.get("scenario")),
                             dict(witness=ce["witness"], vals=ce["values"], label=ce["obligation"], detail=ce["detail"]), path)
            if ok:
                C.log(f"VIOLATION property={PROP} replay={path}")
                return C.EXIT_VIOLATION
            return C.EXIT_OK if ok is False else C.EXIT_INCONCLUSIVE
        finally:
            work.close()
    return DP.replay(PROP, path, GROUPS)
