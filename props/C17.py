"""C17 — event sinks: FIFO bounded buffer, last-value slot, open/close (E2: MIRSE on the real sink code vs a reference model)."""
import os
import subprocess

import z3

from vlib import common as C
from vlib import scnprop as SP
from vlib.mirse.interp import Unsupported
from vlib.mirse.models import Models, deref_all, none, some
from vlib.mirse.values import Agg, B, Cell, I, Ptr, unit

PROP = "C17"
FILES = ["nexosim/src/ports/sink/event_buffer.rs", "nexosim/src/ports/sink/event_slot.rs", "nexosim/src/ports/sink.rs"]


def make_models():
    M = Models()

    def vd_new(it, cal, args):
        return Agg("VecDeque", [])

    def vd_len(it, cal, args):
        return I(len(it.load(args[0]).fields), "usize")

    def vd_push_back(it, cal, args):
        it.load(args[0]).fields.append(args[1])
        return unit()

    def vd_pop_front(it, cal, args):
        d = it.load(args[0])
        return some(d.fields.pop(0)) if d.fields else none()

    def try_lock(it, cal, args):
        p = it.deref(args[0])
        m = it.read_loc(p.cell, p.path)
        if m.fields[1].concrete():
            return Agg("Result", [Agg("TryLockError", [], variant="WouldBlock")], variant="Err")
        m.fields[1] = B(True)
        return Agg("Result", [Agg("MutexGuard", [Ptr(p.cell, p.path + (("f", 0),), "ref"), Ptr(p.cell, p.path, "ref")])], variant="Ok")

    def vd_pop_back(it, cal, args):
        d = it.load(args[0])
        return some(d.fields.pop()) if d.fields else none()

    def vd_push_front(it, cal, args):
        it.load(args[0]).fields.insert(0, args[1])
        return unit()

    def vd_is_empty(it, cal, args):
        return B(len(it.load(args[0]).fields) == 0)

    def vd_clear(it, cal, args):
        del it.load(args[0]).fields[:]
        return unit()

    def vd_with_capacity(it, cal, args):
        return Agg("VecDeque", [], meta={"requested": args[0]})

    def vd_capacity(it, cal, args):
        # std only promises capacity() >= max(len, requested capacity) (usize::MAX for zero-sized elements): symbolic
        d = it.load(args[0])
        c = it.fresh("vdcap", "usize")
        it.assume(z3.UGE(c.v, len(d.fields)))
        req = (d.meta or {}).get("requested") if isinstance(d.meta, dict) else None
        if req is not None:
            it.assume(z3.UGE(c.v, req.v))
        return c

    def vd_truncate(it, cal, args):
        d = it.load(args[0])
        if it.branch(z3.UGE(args[1].v, len(d.fields)), "truncate-noop"):
            return unit()
        n = it.concretize(args[1], "truncate", limit=len(d.fields) + 1)
        del d.fields[n:]
        return unit()

    def vd_front(it, cal, args):
        p = it.deref(args[0])
        d = it.read_loc(p.cell, p.path)
        return some(Ptr(p.cell, p.path + (("i", 0),), "ref")) if d.fields else none()

    def vd_back(it, cal, args):
        p = it.deref(args[0])
        d = it.read_loc(p.cell, p.path)
        return some(Ptr(p.cell, p.path + (("i", len(d.fields) - 1),), "ref")) if d.fields else none()

    def vd_get(it, cal, args):
        p = it.deref(args[0])
        d = it.read_loc(p.cell, p.path)
        n = it.concretize(args[1], "get", limit=16)
        return some(Ptr(p.cell, p.path + (("i", n),), "ref")) if 0 <= n < len(d.fields) else none()

    def vd_remove(it, cal, args):
        d = it.load(args[0])
        n = it.concretize(args[1], "remove", limit=16)
        return some(d.fields.pop(n)) if 0 <= n < len(d.fields) else none()

    def vd_insert(it, cal, args):
        d = it.load(args[0])
        n = it.concretize(args[1], "insert", limit=16)
        d.fields.insert(n, args[2])
        return unit()

    def then_some(it, cal, args):
        if it.branch(args[0], "then_some"):
            return some(args[1])
        return none()

    def opt_replace(it, cal, args):
        old = it.load(args[0])
        it.store(args[0], some(args[1]))
        return old

    def opt_insert(it, cal, args):
        it.store(args[0], some(args[1]))
        p = it.deref(args[0])
        return Ptr(p.cell, p.path + (("f", 0),), "ref")

    M.extra.update({
        "VecDeque::with_capacity": vd_with_capacity, "VecDeque::capacity": vd_capacity, "VecDeque::truncate": vd_truncate,
        "VecDeque::front": vd_front, "VecDeque::back": vd_back, "VecDeque::front_mut": vd_front, "VecDeque::back_mut": vd_back,
        "VecDeque::get": vd_get, "VecDeque::get_mut": vd_get, "VecDeque::remove": vd_remove, "VecDeque::insert": vd_insert,
        "core::bool::<impl bool>::then_some": then_some, "bool::then_some": then_some,
        "Option::replace": opt_replace, "Option::insert": opt_insert,
    })
    M.extra.update({
        "VecDeque::pop_back": vd_pop_back, "VecDeque::push_front": vd_push_front, "VecDeque::is_empty": vd_is_empty,
        "VecDeque::clear": vd_clear,
        "VecDeque::new": vd_new, "VecDeque::len": vd_len, "VecDeque::push_back": vd_push_back,
        "VecDeque::pop_front": vd_pop_front, "Mutex::try_lock": try_lock, "std::sync::Mutex::try_lock": try_lock,
    })
    return M


def ref(v, tag="t"):
    return Ptr(Cell(v, tag=tag), (), "ref")


def on_path_end(it, exc):
    """a panic (index out of bounds, unwrap on the wrong node kind, arithmetic overflow) or an unbounded loop inside an operation"""
    from vlib.mirse.interp import LoopBound, Violation
    kind = "C17:operation-returns" if isinstance(exc, LoopBound) else "C17:no-panic"
    vals = it.model_values() or {}
    v = Violation(kind, vals, list(it.trace), f"{it.env.get('witness')}: {exc}")
    v.witness = it.env.get("witness")
    it.violations.append(v)


def scenario(it, params):
    """symbolic op sequence: every operation kind is an environment choice (all explored), every written value and the
    capacity are symbolic"""
    kind, closed, n = params["kind"], params["closed"], params["nops"]
    ops = []
    it.env["witness"] = dict(kind=kind, closed=closed, ops=ops)
    if kind == "buffer":
        cap = it.sym("cap", "usize")
        it.assume(z3.UGE(cap.v, 1))
        sink = it.call_fn("EventBuffer", None, "with_capacity_closed" if closed else "with_capacity", [cap])
        tn, wn = "EventBuffer", "EventBufferWriter"
    else:
        cap = None
        sink = it.call_fn("EventSlot", None, "new_closed" if closed else "new", [])
        tn, wn = "EventSlot", "EventSlotWriter"
    scell = Cell(sink, tag="sink")
    sref = Ptr(scell, (), "ref")
    writer = it.call_fn(tn, "EventSink", "writer", [sref])
    wref = ref(writer, "writer")
    model = []          # reference content (z3 terms), oldest first
    is_open = not closed
    first = params.get("first")
    for i in range(n):
        k = first if (i == 0 and first is not None) else it.choose(4, "op")
        if k == 0:
            v = it.sym(f"v{i}", "u8")
            ops.append(["w", f"v{i}"])
            w2 = it.call_fn(wn, "Clone", "clone", [wref])  # events are written through clones of the writer
            it.call_fn(wn, "EventSinkWriter", "write", [ref(w2, "w2"), v])
            if is_open:
                if kind == "buffer":
                    # overflow keeps exactly the `capacity` most recent events
                    if it.branch(cap.v == len(model), "spec-full"):
                        model.pop(0)
                    model.append(v.v)
                else:
                    model[:] = [v.v]
        elif k == 1:
            ops.append(["n"])
            r = it.call_fn(tn, "Iterator", "next", [sref])
            if model:
                exp = model.pop(0)
                it.check(r.variant == "Some", "C17:read-yields-oldest", f"op {i}: next() returned None although {len(model) + 1} event(s) are held")
                if r.variant == "Some":
                    it.check(r.fields[0].v == exp, "C17:read-yields-oldest", f"op {i}: next() returned the wrong event")
            else:
                it.check(r.variant == "None", "C17:read-empty-yields-none", f"op {i}: next() invented an event")
        elif k == 2:
            ops.append(["o"])
            it.call_fn(tn, "EventSinkStream", "open", [sref])
            is_open = True
        else:
            ops.append(["c"])
            it.call_fn(tn, "EventSinkStream", "close", [sref])
            is_open = False
    # drain: what is left equals the reference content, in order
    ops.append(["drain"])
    for j, exp in enumerate(list(model)):
        r = it.call_fn(tn, "Iterator", "next", [sref])
        it.check(r.variant == "Some", "C17:retains-written-events", f"drain {j}: event missing")
        if r.variant == "Some":
            it.check(r.fields[0].v == exp, "C17:fifo-order", f"drain {j}: wrong event")
    r = it.call_fn(tn, "Iterator", "next", [sref])
    it.check(r.variant == "None", "C17:bounded-no-extra-events", "more events held than the reference model allows")


def _native(work, job, v, d):
    exe = SP.build_native_test(work, "verif_sinks", os.path.join(C.VERIF, "harness", "native", "verif_sinks.rs"))
    if not exe:
        return None
    w = v["witness"]
    vals = v["vals"]
    cap = vals.get("cap", 1)
    lines = [f"buffer {cap} {'closed' if w['closed'] else 'open'}" if w["kind"] == "buffer" else f"slot {'closed' if w['closed'] else 'open'}"]
    # reference model on the concrete script
    model, is_open, expect = [], not w["closed"], []
    for op in w["ops"]:
        if op[0] == "w":
            x = vals.get(op[1], 0)
            lines.append(f"w {x}")
            if is_open:
                if w["kind"] == "buffer":
                    if len(model) == cap:
                        model.pop(0)
                    model.append(x)
                else:
                    model[:] = [x]
        elif op[0] == "n":
            lines.append("n")
            expect.append(model.pop(0) if model else None)
        elif op[0] == "o":
            lines.append("o")
            is_open = True
        elif op[0] == "c":
            lines.append("c")
            is_open = False
        elif op[0] == "drain":
            for _ in range(len(model) + 1):
                lines.append("n")
                expect.append(model.pop(0) if model else None)
    spath = os.path.join(d, "script.txt")
    open(spath, "w").write("\n".join(lines) + "\n")
    p = subprocess.run([exe, "--nocapture"], env=C.env_offline({"VERIF_SCRIPT": spath}), stdout=subprocess.PIPE, stderr=subprocess.STDOUT,
                       text=True, timeout=60)
    open(os.path.join(d, "native_trace.txt"), "w").write(p.stdout)
    got = []
    for ln in p.stdout.splitlines():
        if ln.startswith("n "):
            got.append(None if "None" in ln else int(ln[ln.index("(") + 1:ln.index(")")]))
    note = ""
    if got == expect and w["kind"] == "buffer":
        # second attempt with zero-sized events (EventBuffer<()>): capacity-related behaviour of the backing container may
        # depend on the element size; only the pattern Some/None is compared
        lines[0] = lines[0].replace("buffer ", "bufferz ", 1)
        spath2 = os.path.join(d, "script-zst.txt")
        open(spath2, "w").write("\n".join(lines) + "\n")
        p = subprocess.run([exe, "--nocapture"], env=C.env_offline({"VERIF_SCRIPT": spath2}), stdout=subprocess.PIPE,
                           stderr=subprocess.STDOUT, text=True, timeout=60)
        open(os.path.join(d, "native_trace_zst.txt"), "w").write(p.stdout)
        gz = [None if "None" in ln else True for ln in p.stdout.splitlines() if ln.startswith("n ")]
        ez = [None if x is None else True for x in expect]
        if gz != ez:
            got, expect = gz, ez
            note = " (with zero-sized events, EventBuffer<()>: script-zst.txt)"
    open(os.path.join(d, "README.txt"), "w").write(
        f"Counterexample for C17 ({v['label']}): script.txt run through the public sink API by harness/native/verif_sinks.rs{note}.\n"
        f"expected reads {expect}\nobserved reads {got}\nRe-run: ./check C17 --replay {d}\n")
    return got != expect


def run(tier, only=None):
    ev = C.Evidence(PROP, tier)
    ev.cov["source_sha256"] = C.source_hashes(FILES)
    n = 6 if tier == "quick" else 8
    jobs = []
    for kind in ("buffer", "slot"):
        for closed in (False, True):
            for first in range(4):
                jobs.append(dict(params=dict(kind=kind, closed=closed, nops=n, first=first), budget_s=900, max_paths=400000))
    ev.cov["bounds"] = {"sequences": f"every sequence of {n} operations over {{write(v), next, open, close}} followed by a full drain, "
                                     f"started open and closed; every written value (u8) and the buffer capacity (any usize >= 1) symbolic",
                        "instantiation": "EventBuffer<u8>, EventSlot<u8>; writes go through clones of the writer"}
    ev.cov["outside_claim"] = ["'events sent by one model through one output reach a sink in sending order' end-to-end (the sender side is a coroutine)",
                               "concurrent writers (try_lock contention in EventSlot)", "longer sequences", "EventSinkStream::__try_fold"]
    rc = SP.run(PROP, tier, ev, "props.C17", jobs, native_replay=_native)
    ev.write({0: "held on everything explored", 1: "violation", 2: "inconclusive"}[rc])
    return rc


def replay(path):
    import json
    ce = json.load(open(os.path.join(path, "counterexample.json")))
    work = C.WorkDir("mirse-C17")
    try:
        ok = _native(work, dict(params=ce["params"]), dict(witness=ce["witness"], vals=ce["values"], label=ce["obligation"]), path)
        if ok:
            C.log(f"VIOLATION property={PROP} replay={path}")
            return C.EXIT_VIOLATION
        return C.EXIT_OK if ok is False else C.EXIT_INCONCLUSIVE
    finally:
        work.close()
