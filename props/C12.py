"""C12 — mailbox queue: bounded, lossless MPSC FIFO (E2: MIRSE on channel/queue.rs; sequential semantics).

(a) one operation from an ARBITRARY valid queue state: capacity concrete, sequence counters SYMBOLIC (all values, so the
    2^64 wrap-around no run can reach), fill level / dequeue index / outstanding borrow / closed flag enumerated;
    obligations: functional result, representation invariant preserved, len() == number of held messages.
(b) sequences of operations from `Queue::new` against a reference FIFO (guards the invariant of (a) against being too
    weak or too strong: every state reached by (b) is a state (a) starts from).
The wake-up clauses of the property (send/recv are coroutines over async-event) and real concurrency are NOT decided here.
"""
import json
import os
import re

import z3

from vlib import common as C
from vlib import scnprop as SP
from vlib.mirse.interp import RustPanic, Unsupported
from vlib.mirse.models import Models, deref_all, none, some
from vlib.mirse.values import Agg, B, Cell, I, Opaque, Ptr, unit

PROP = "C12"
FILES = ["nexosim/src/channel/queue.rs", "nexosim/src/loom_exports.rs"]


def make_models():
    M = Models()

    def with_mut(it, cal, args):
        cellp = it.deref(args[0])
        return it.call_closure(args[1], Agg("tuple", [Ptr(cellp.cell, cellp.path + (("f", 0),), "raw")]))

    def msgfn_call(it, cal, args):
        f = args[0]
        f.data["calls"] = f.data.get("calls", 0) + 1
        return Agg("RecycleBox", [I(f.data["id"], "u64")])

    def cas(it, cal, args):
        a = it.load(args[0])
        old = a.fields[0]
        eq = it.binop("Eq", old, args[1])
        weak = cal.method == "compare_exchange_weak"
        if it.branch(eq, "cas"):
            if weak and it.env.get("spurious_budget", 0) > 0 and it.choose(2, "cas-spurious") == 1:
                it.env["spurious_budget"] -= 1
                return Agg("Result", [old], variant="Err")
            a.fields[0] = args[2]
            return Agg("Result", [old], variant="Ok")
        return Agg("Result", [old], variant="Err")

    M.extra.update({
        "UnsafeCell::with_mut": with_mut, "UnsafeCell::with": with_mut,
        "<MsgFn as FnOnce>::call_once": msgfn_call,
        "RecycleBox::new": lambda it, cal, args: Agg("RecycleBox", [args[0]]),
        "RecycleBox::vacate": lambda it, cal, args: Agg("RecycleBox", [unit()]),
        "RecycleBox::recycle": lambda it, cal, args: Agg("RecycleBox", [args[1]]),
        "ManuallyDrop::take": lambda it, cal, args: it.load(args[0]) if not isinstance(it.load(args[0]), Agg) or it.load(args[0]).name != "ManuallyDrop" else it.load(args[0]).fields[0],
        "<Vec as Into>::into": lambda it, cal, args: it.alloc(Agg("array", args[0].fields), tag="boxslice", kind="box"),
        "<Vec as From>::from": lambda it, cal, args: args[0],
        "Atomic::compare_exchange": cas, "Atomic::compare_exchange_weak": cas,
        "<RecycleBox as Deref>::deref": lambda it, cal, args: Ptr(it.deref(args[0]).cell, it.deref(args[0]).path + (("f", 0),), "ref"),
        "<RecycleBox as DerefMut>::deref_mut": lambda it, cal, args: Ptr(it.deref(args[0]).cell, it.deref(args[0]).path + (("f", 0),), "ref"),
    })
    return M


def on_path_end(it, exc):
    """a panic (arithmetic overflow, index out of bounds, unreachable!) or an unbounded retry loop inside a queue operation"""
    from vlib.mirse.interp import LoopBound, Violation
    kind = "C12:operation-returns" if isinstance(exc, LoopBound) else "C12:no-panic"
    vals = it.model_values() or {}
    v = Violation(kind, vals, list(it.trace), f"{it.env.get('witness')}: {exc}")
    v.witness = it.env.get("witness")
    it.violations.append(v)


def _ref(v, tag="t"):
    return Ptr(Cell(v, tag=tag), (), "ref")


class QSpec:
    """position arithmetic of the specification: a position is (sequence number, index)"""

    def __init__(self, cap):
        self.cap = cap
        p2 = 1
        while p2 < cap:
            p2 <<= 1
        self.closed_mask = p2
        self.right_mask = (p2 << 1) - 1
        self.shift = self.right_mask.bit_length()      # sequence counter occupies bits shift..63
        self.seq_bits = 64 - self.shift

    def enc(self, seq, idx, closed=False):
        """64-bit encoding; seq is a z3 bit-vector of seq_bits bits"""
        low = z3.BitVecVal(idx | (self.closed_mask if closed else 0), self.shift)
        return z3.Concat(seq, low)

    def nxt(self, seq, idx, k=1):
        for _ in range(k):
            if idx + 1 < self.cap:
                idx += 1
            else:
                idx = 0
                seq = seq + 1
        return seq, idx


def _atomic_field(agg, name):
    """value cell of an atomic field possibly wrapped in CachePadded"""
    v = agg.fields[agg.meta.index(name)]
    while isinstance(v, Agg) and v.name in ("CachePadded",) and len(v.fields) == 1:
        v = v.fields[0]
    return v   # Agg('Atomic',[value])


def build_state(it, cap, fill, didx, closed, S):
    """real Queue::new(cap), then overwritten with the arbitrary valid state: dequeue position (S, didx), `fill` messages held"""
    q = it.call_fn("Queue", None, "new", [I(cap, "usize")])
    sp = QSpec(cap)
    dseq = S
    eseq, eidx = sp.nxt(dseq, didx, fill)
    _atomic_field(q, "dequeue_pos").fields[0] = I(z3.simplify(sp.enc(dseq, didx)), "usize")
    _atomic_field(q, "enqueue_pos").fields[0] = I(z3.simplify(sp.enc(eseq, eidx, closed)), "usize")
    buf = q.fields[q.meta.index("buffer")]
    arr = it.read_loc(buf.cell, buf.path)
    msgs = []
    # occupied slots: the `fill` positions starting at the dequeue position
    seq, idx = dseq, didx
    occupied = {}
    for k in range(fill):
        occupied[idx] = (seq, 100 + k)
        msgs.append(100 + k)
        seq, idx = sp.nxt(seq, idx)
    # free slots: stamp = the next enqueue position that has this index
    seq, idx = eseq, eidx
    free = {}
    for k in range(cap - fill):
        free[idx] = seq
        seq, idx = sp.nxt(seq, idx)
    for i, slot in enumerate(arr.fields):
        st = _atomic_field(slot, "stamp")
        mb = slot.fields[slot.meta.index("message")]
        if i in occupied:
            s, mid = occupied[i]
            st.fields[0] = I(z3.simplify(sp.enc(s, i) + 1), "usize")
            mb.fields[0] = Agg("MessageBox", [Agg("RecycleBox", [I(mid, "u64")])], variant="Populated")
        else:
            st.fields[0] = I(z3.simplify(sp.enc(free[i], i)), "usize")
            mb.fields[0] = Agg("MessageBox", [Agg("RecycleBox", [unit()])], variant="Vacated")
    return q, sp, msgs


def check_ri(it, q, sp, cap, dseq, didx, held, borrowed_idx, closed, tag):
    """representation invariant after an operation: positions and stamps as the specification says"""
    fill = len(held)
    eseq, eidx = sp.nxt(dseq, didx, fill)
    it.check(_atomic_field(q, "dequeue_pos").fields[0].v == sp.enc(dseq, didx), "C12:ri-dequeue-position", tag)
    it.check(_atomic_field(q, "enqueue_pos").fields[0].v == sp.enc(eseq, eidx, closed), "C12:ri-enqueue-position", tag)
    buf = q.fields[q.meta.index("buffer")]
    arr = it.read_loc(buf.cell, buf.path)
    seq, idx = dseq, didx
    occ = {}
    for k in range(fill):
        occ[idx] = seq
        seq, idx = sp.nxt(seq, idx)
    seq, idx = eseq, eidx
    free = {}
    for k in range(cap - fill):
        free[idx] = seq
        seq, idx = sp.nxt(seq, idx)
    for i, slot in enumerate(arr.fields):
        st = _atomic_field(slot, "stamp").fields[0]
        mb = slot.fields[slot.meta.index("message")].fields[0]
        if i in occ:
            it.check(st.v == sp.enc(occ[i], i) + 1, "C12:ri-stamp-of-occupied-slot", f"{tag} slot {i}")
            it.check(B(mb.variant == "Populated"), "C12:ri-occupied-slot-holds-message", f"{tag} slot {i}")
        elif i == borrowed_idx:
            # a borrowed slot keeps its 'occupied' stamp of the previous lap and an empty box until the borrow is dropped
            it.check(B(mb.variant == "None"), "C12:ri-borrowed-slot-empty", f"{tag} slot {i}")
        else:
            it.check(st.v == sp.enc(free[i], i), "C12:ri-stamp-of-free-slot", f"{tag} slot {i}")
            it.check(B(mb.variant == "Vacated"), "C12:ri-free-slot-vacated", f"{tag} slot {i}")


def scenario_inductive(it, params):
    cap, fill, didx, closed, op = params["cap"], params["fill"], params["didx"], params["closed"], params["op"]
    sp0 = QSpec(cap)
    S = it.sym("seq", "u64").v
    S = z3.Extract(sp0.seq_bits - 1, 0, S)
    it.env["witness"] = dict(params)
    it.env["spurious_budget"] = 1
    q, sp, held = build_state(it, cap, fill, didx, closed, S)
    qc = Cell(q, tag="queue")
    qr = Ptr(qc, (), "ref")
    dseq = S
    tag = f"cap={cap} fill={fill} didx={didx} closed={closed} op={op}"
    ln = it.call_fn("Queue", None, "len", [qr])
    it.check(ln.v == fill, "C12:len-equals-held", tag + " (before)")
    it.check(it.call_fn("Queue", None, "is_closed", [qr]).v == z3.BoolVal(closed), "C12:is-closed", tag)
    if op == "push":
        f = Opaque("MsgFn", id=7)
        r = it.call_fn("Queue", None, "push", [qr, f])
        if closed:
            it.check(B(r.variant == "Err" and r.fields[0].variant == "Closed"), "C12:push-after-close-fails", tag)
            it.check(B(f.data.get("calls", 0) == 0), "C12:rejected-message-not-built", tag)
        elif fill == cap:
            it.check(B(r.variant == "Err" and r.fields[0].variant == "Full"), "C12:push-full-iff-capacity-reached", tag)
            if r.variant == "Err" and r.fields[0].variant == "Full":
                it.check(B(r.fields[0].fields[0] is f), "C12:full-returns-the-message", tag)
            it.check(B(f.data.get("calls", 0) == 0), "C12:rejected-message-not-built", tag)
        else:
            it.check(B(r.variant == "Ok"), "C12:push-succeeds-when-room", tag + f" -> {r.variant}")
            it.check(B(f.data.get("calls", 0) == 1), "C12:message-built-exactly-once", tag)
            if r.variant == "Ok":
                held = held + [7]
        if not (r.variant == "Ok" and fill == cap):
            check_ri(it, q, sp, cap, dseq, didx, held, None, closed, tag)
        it.check(it.call_fn("Queue", None, "len", [qr]).v == len(held), "C12:len-equals-held", tag + " (after)")
    elif op in ("pop", "pop-drop"):
        r = it.call_fn("Queue", None, "pop", [qr])
        if fill == 0:
            want = "Closed" if closed else "Empty"
            it.check(B(r.variant == "Err" and r.fields[0].variant == want), "C12:pop-empty-result", tag + f" -> {r.variant}")
            check_ri(it, q, sp, cap, dseq, didx, held, None, closed, tag)
        else:
            it.check(B(r.variant == "Ok"), "C12:accepted-messages-remain-receivable", tag)
            if r.variant == "Ok":
                b = r.fields[0]
                msg = b.fields[b.meta.index("msg")]
                while isinstance(msg, Agg) and msg.name in ("ManuallyDrop", "RecycleBox"):
                    msg = msg.fields[0]
                it.check(msg.v == held[0], "C12:fifo-oldest-first", tag)
                held = held[1:]
                ndseq, ndidx = sp.nxt(dseq, didx)
                if op == "pop":
                    check_ri(it, q, sp, cap, ndseq, ndidx, held, didx, closed, tag + " (borrow outstanding)")
                    # while the borrow is outstanding the slot is not reusable: a push into a full ring must say Full
                    if len(held) == cap - 1 and not closed:
                        r2 = it.call_fn("Queue", None, "push", [qr, Opaque("MsgFn", id=8)])
                        it.check(B(r2.variant == "Err" and r2.fields[0].variant == "Full"), "C12:borrowed-slot-not-reused", tag)
                it.drop_value(b)
                check_ri(it, q, sp, cap, ndseq, ndidx, held, None, closed, tag + " (borrow dropped)")
                it.check(it.call_fn("Queue", None, "len", [qr]).v == len(held), "C12:len-equals-held", tag + " (after)")
    elif op == "close":
        it.call_fn("Queue", None, "close", [qr])
        check_ri(it, q, sp, cap, dseq, didx, held, None, True, tag)
        it.check(it.call_fn("Queue", None, "len", [qr]).v == fill, "C12:len-equals-held", tag + " (after close)")
        it.check(it.call_fn("Queue", None, "is_closed", [qr]).v, "C12:is-closed", tag)


def scenario_sequence(it, params):
    """operation sequences from Queue::new vs a reference FIFO (all environment choices explored)"""
    cap, n = params["cap"], params["nops"]
    ops = []
    it.env["witness"] = dict(cap=cap, ops=ops)
    it.env["spurious_budget"] = 1
    q = it.call_fn("Queue", None, "new", [I(cap, "usize")])
    qr = Ptr(Cell(q, tag="queue"), (), "ref")
    held, closed, borrow = [], False, None
    first = params.get("first")
    for i in range(n):
        k = first if (i == 0 and first is not None) else it.choose(4, "op")
        if k == 0:
            ops.append("push")
            f = Opaque("MsgFn", id=i)
            r = it.call_fn("Queue", None, "push", [qr, f])
            room = len(held) + (1 if borrow is not None else 0) < cap
            if closed:
                it.check(B(r.variant == "Err" and r.fields[0].variant == "Closed"), "C12:push-after-close-fails", f"op {i}")
            elif not room:
                it.check(B(r.variant == "Err" and r.fields[0].variant == "Full"), "C12:push-full-iff-capacity-reached", f"op {i}: {r.variant}")
            else:
                it.check(B(r.variant == "Ok"), "C12:push-succeeds-when-room", f"op {i}")
            if r.variant == "Ok":
                held.append(i)
            it.check(B(len(held) + (1 if borrow is not None else 0) <= cap), "C12:never-more-than-capacity", f"op {i}")
        elif k == 1:
            if borrow is not None:
                ops.append("drop")
                it.drop_value(borrow)
                borrow = None
            else:
                ops.append("pop")
                r = it.call_fn("Queue", None, "pop", [qr])
                if held:
                    it.check(B(r.variant == "Ok"), "C12:accepted-messages-remain-receivable", f"op {i}")
                    if r.variant == "Ok":
                        b = r.fields[0]
                        msg = b.fields[b.meta.index("msg")]
                        while isinstance(msg, Agg) and msg.name in ("ManuallyDrop", "RecycleBox"):
                            msg = msg.fields[0]
                        it.check(msg.v == held[0], "C12:fifo-oldest-first", f"op {i}")
                        held.pop(0)
                        borrow = b
                else:
                    want = "Closed" if closed else "Empty"
                    it.check(B(r.variant == "Err" and r.fields[0].variant == want), "C12:pop-empty-result", f"op {i}")
        elif k == 2:
            ops.append("close")
            it.call_fn("Queue", None, "close", [qr])
            closed = True
        else:
            ops.append("len")
            if borrow is None:
                it.check(it.call_fn("Queue", None, "len", [qr]).v == len(held), "C12:len-equals-held", f"op {i}")


def inductive_jobs(caps):
    J = []
    for cap in caps:
        for fill in range(cap + 1):
            for didx in range(cap):
                for closed in (False, True):
                    for op in ("push", "pop", "pop-drop", "close"):
                        J.append(dict(scenario="scenario_inductive", params=dict(cap=cap, fill=fill, didx=didx, closed=closed, op=op)))
    return J


REPLAY_SRC = r'''
// ---- appended by /verif for native replay (cfg(test) only) ----
#[cfg(test)]
mod verif_replay {
    use super::*;
    use recycle_box::{coerce_box, RecycleBox};
    #[test]
    fn verif_queue_script() {
        let path = match std::env::var("VERIF_SCRIPT") { Ok(p) => p, Err(_) => return };
        let text = std::fs::read_to_string(path).unwrap();
        let mut lines = text.lines();
        let cap: usize = lines.next().unwrap().split_whitespace().nth(1).unwrap().parse().unwrap();
        let q: Queue<u64> = Queue::new(cap);
        println!("VERIF-TRACE-BEGIN");
        let mut borrow: Option<MessageBorrow<'_, u64>> = None;
        for l in lines {
            let t: Vec<&str> = l.split_whitespace().collect();
            if t.is_empty() { continue; }
            match t[0] {
                // state <enqueue_pos> <dequeue_pos> then per slot: <stamp> <message id or -> ...
                "state" => {
                    q.enqueue_pos.store(t[1].parse().unwrap(), Ordering::Relaxed);
                    q.dequeue_pos.store(t[2].parse().unwrap(), Ordering::Relaxed);
                    for i in 0..cap {
                        q.buffer[i].stamp.store(t[3 + 2 * i].parse().unwrap(), Ordering::Relaxed);
                        let m = t[4 + 2 * i];
                        if m != "-" {
                            let v: u64 = m.parse().unwrap();
                            unsafe { q.buffer[i].message.with_mut(|p| {
                                let b = match mem::replace(&mut *p, MessageBox::None) { MessageBox::Vacated(b) => b, _ => unreachable!() };
                                *p = MessageBox::Populated(RecycleBox::recycle(b, v));
                            }); }
                        }
                    }
                }
                "push" => {
                    let v: u64 = t[1].parse().unwrap();
                    match q.push(|b| RecycleBox::recycle(b, v)) {
                        Ok(()) => println!("r push Ok"),
                        Err(PushError::Full(_)) => println!("r push Full"),
                        Err(PushError::Closed) => println!("r push Closed"),
                    }
                }
                "pop" => match unsafe { q.pop() } {
                    Ok(b) => { println!("r pop Ok {}", *b); borrow = Some(b); }
                    Err(PopError::Empty) => println!("r pop Empty"),
                    Err(PopError::Closed) => println!("r pop Closed"),
                },
                "drop" => { borrow = None; }
                "close" => q.close(),
                "len" => println!("r len {}", q.len()),
                _ => panic!("op"),
            }
        }
        drop(borrow);
        println!("VERIF-TRACE-END");
    }
}
'''


def _native(work, job, v, d):
    """replay inside the crate (Queue is crate-private): a cfg(test) module appended to queue.rs in the overlay"""
    w, vals = v["witness"], v["vals"]
    crate = work.sync_overlay("ovn")
    with open(os.path.join(crate, "src/channel/queue.rs"), "a") as f:
        f.write(REPLAY_SRC)
    lines, expect = [], []
    if "op" in w:      # inductive counterexample: concrete state from the solver's sequence counter
        cap, fill, didx, closed, op = w["cap"], w["fill"], w["didx"], w["closed"], w["op"]
        sp = QSpec(cap)
        S = vals.get("seq", 0) & ((1 << sp.seq_bits) - 1)

        def enc(seq, idx, cl=False):
            return ((seq & ((1 << sp.seq_bits) - 1)) << sp.shift) | idx | (sp.closed_mask if cl else 0)

        def nxt(seq, idx, k=1):
            for _ in range(k):
                if idx + 1 < cap:
                    idx += 1
                else:
                    idx, seq = 0, seq + 1
            return seq, idx
        eseq, eidx = nxt(S, didx, fill)
        slots = {}
        seq, idx = S, didx
        held = []
        for k in range(fill):
            slots[idx] = ((enc(seq, idx) + 1) & ((1 << 64) - 1), 100 + k)
            held.append(100 + k)
            seq, idx = nxt(seq, idx)
        seq, idx = eseq, eidx
        for k in range(cap - fill):
            slots[idx] = (enc(seq, idx), None)
            seq, idx = nxt(seq, idx)
        st = " ".join(f"{slots[i][0]} {slots[i][1] if slots[i][1] is not None else '-'}" for i in range(cap))
        lines = [f"cap {cap}", f"state {enc(eseq, eidx, closed)} {enc(S, didx)} {st}", "len"]
        expect.append(f"r len {fill}")
        if op == "push":
            lines += ["push 7", "len"]
            if closed:
                expect += ["r push Closed", f"r len {fill}"]
            elif fill == cap:
                expect += ["r push Full", f"r len {fill}"]
            else:
                expect += ["r push Ok", f"r len {fill + 1}"]
                held.append(7)
        elif op in ("pop", "pop-drop"):
            lines += ["pop"]
            if fill == 0:
                expect.append("r pop Closed" if closed else "r pop Empty")
            else:
                expect.append(f"r pop Ok {held.pop(0)}")
                if op == "pop" and len(held) == cap - 1 and not closed:
                    lines.append("push 8")
                    expect.append("r push Full")
                lines += ["drop", "len"]
                expect.append(f"r len {len(held)}")
        elif op == "close":
            lines += ["close", "len", "push 9"]
            expect += [f"r len {fill}", "r push Closed"]
        # drain everything that should still be there
        for m in held:
            lines += ["pop", "drop"]
            expect.append(f"r pop Ok {m}")
    else:
        cap = w["cap"]
        lines = [f"cap {cap}"]
        held, closed, borrow = [], False, False
        for i, op in enumerate(w["ops"]):
            if op == "push":
                lines.append(f"push {i}")
                room = len(held) + (1 if borrow else 0) < cap
                if closed:
                    expect.append("r push Closed")
                elif not room:
                    expect.append("r push Full")
                else:
                    expect.append("r push Ok")
                    held.append(i)
            elif op == "pop":
                lines.append("pop")
                if held:
                    expect.append(f"r pop Ok {held.pop(0)}")
                    borrow = True
                else:
                    expect.append("r pop Closed" if closed else "r pop Empty")
            elif op == "drop":
                lines.append("drop")
                borrow = False
            elif op == "close":
                lines.append("close")
                closed = True
            elif op == "len":
                if not borrow:
                    lines.append("len")
                    expect.append(f"r len {len(held)}")
    spath = os.path.join(d, "script.txt")
    open(spath, "w").write("\n".join(lines) + "\n")
    rc, out = C.run(["cargo", "test", "--offline", "--lib", "--target-dir", work.sub("native-target"), "verif_queue_script", "--", "--nocapture"],
                    cwd=crate, env=C.env_offline({"VERIF_SCRIPT": spath}), timeout=1500)
    open(os.path.join(d, "native_trace.txt"), "w").write(out[-6000:])
    got = [l.strip() for l in out.splitlines() if l.startswith("r ")]
    open(os.path.join(d, "README.txt"), "w").write(
        f"Counterexample for C12 ({v['label']}: {v['detail']}): script.txt replayed on the real Queue<u64> by a cfg(test) module appended to "
        f"channel/queue.rs in the overlay (the `state` line pokes the solver's positions/stamps into the private fields).\n"
        f"expected {expect}\nobserved {got}\nRe-run: ./check C12 --replay {d}\n")
    if "VERIF-TRACE-BEGIN" not in out:
        return None
    if "VERIF-TRACE-END" not in out:
        return True   # the real queue panicked / aborted on this state
    return got != expect


def run(tier, only=None, prop=PROP, labels=None):
    ev = C.Evidence(prop, tier)
    ev.cov["source_sha256"] = C.source_hashes(FILES)
    caps = (1, 2, 3, 4) if tier == "quick" else (1, 2, 3, 4, 5, 6, 8)
    jobs = inductive_jobs(caps)
    nseq = 6 if tier == "quick" else 8
    for cap in ((1, 2, 3) if tier == "quick" else (1, 2, 3, 4, 5)):
        for f in range(4):
            jobs.append(dict(scenario="scenario_sequence", params=dict(cap=cap, nops=nseq, first=f), budget_s=900, max_paths=400000))
    # the wake-up clause: the message-plane benches (real send/recv coroutines over the queue, every task order); a command
    # of an acyclic bench that stalls means a sender waiting for space / the receiver waiting for a message was not resumed
    from vlib import msgplane as MPL
    from vlib import msgprop as MP
    wake = []
    for b in MPL.benches(tier):
        if "C12" in b["props"]:
            jobs.append(dict(module="vlib.msgplane", scenario="scenario", loop_bound=60, budget_s=1500 if tier == "quick" else 5000,
                             params=dict(bench=b["bench"], driver=b["driver"], permute=b.get("permute", True), acyclic=True, name=b["name"])))
            wake.append(b["name"])
    if only:
        jobs = [j for j in jobs if only in j["scenario"] or only in j["params"].get("name", "")]
    msg_native = MP.make_native("C12")

    def native(work, job, v, d):
        return msg_native(work, job, v, d) if job.get("module") == "vlib.msgplane" else _native(work, job, v, d)
    labels = labels or ("C12:",)
    ev.cov["bounds"] = {
        "wake-ups": f"message-plane benches {wake}: real Sender::send / Receiver::recv coroutines, capacity-1 and -2 mailboxes, every order in which the "
                    "executor model picks a ready task (task-poll granularity)",
        "inductive": f"capacities {list(caps)} (powers of two and not); every fill level 0..cap, dequeue index, closed flag, operation in "
                     "{push, pop (borrow kept), pop+drop, close}; the sequence counter of the positions/stamps is SYMBOLIC (all values, incl. the wrap-around); "
                     "compare_exchange_weak may fail spuriously once",
        "sequences": f"every sequence of {nseq} operations over {{push, pop/drop-borrow, close, len}} from Queue::new",
    }
    ev.cov["outside_claim"] = ["wake-ups under real parallelism (a notification racing with a failed push/pop on another thread): tasks interleave at "
                               "await points only; async-event / diatomic-waker are modelled after their sources",
                               "concurrent producers / C11 interleavings (sequential semantics of the atomics here)",
                               "RecycleBox internals (messages are ids)"]
    rc = SP.run(prop, tier, ev, "props.C12", jobs, native_replay=native, only_labels=labels) if jobs else C.EXIT_OK
    if prop == PROP and (not only or only == "c11"):
        # part Q (E3): one push racing with one pop under the C11 memory model
        from props import C12q
        from vlib import drvprop as DP
        work = C.WorkDir("mirse-C12")
        try:
            mir, src_root, _ = DP.dump_mir(work)
            if not mir:
                rc = max(rc, C.EXIT_INCONCLUSIVE)
            else:
                ev.cov["engines"].append("axc11 (axiomatic C11 release/acquire model over MIRSE events)")
                rq = C12q.run_part(ev, work, mir, src_root, tier)
                rc = C.EXIT_VIOLATION if C.EXIT_VIOLATION in (rc, rq) else max(rc, rq)
        finally:
            work.close()
        ev.cov["bounds"]["c11"] = ("E3: one producer pushing one message || the consumer popping, reading and releasing it, capacities 1-2 (thorough: 1-4): "
                                   "no data race on a slot, no slot read in the wrong state, the popped message is the pushed one; thread paths are "
                                   "enumerated over per-thread value sets (fixpoint), every C11-consistent execution of each path combination is decided")
        ev.cov["outside_claim"][1] = ("C11 interleavings of more than one operation per thread (slot reuse, several producers): thread-isolated path "
                                      "enumeration explodes on the retry loops (> 30000 paths for two pushes)")
    ev.write({0: "held on everything explored", 1: "violation", 2: "inconclusive"}[rc])
    return rc


def replay(path, prop=PROP):
    ce = json.load(open(os.path.join(path, "counterexample.json")))
    if "bench" in ce.get("params", {}):
        from vlib import msgprop as MP
        return MP.replay(prop, path)
    work = C.WorkDir(f"mirse-{prop}")
    try:
        ok = _native(work, dict(params=ce["params"]), dict(witness=ce["witness"], vals=ce["values"], label=ce["obligation"], detail=ce["detail"]), path)
        if ok:
            C.log(f"VIOLATION property={prop} replay={path}")
            return C.EXIT_VIOLATION
        return C.EXIT_OK if ok is False else C.EXIT_INCONCLUSIVE
    finally:
        work.close()
