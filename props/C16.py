"""C16 — Every model is initialised exactly once, before it handles anything (E2 on the real model task)."""
from vlib import common as C
from vlib import msgprop as MP

PROP = "C16"


def run(tier, only=None):
    ev, rc = MP.run(PROP, tier, ("C16:",), only=only)
    ev.write({0: "held on everything explored", 1: "violation", 2: "inconclusive"}[rc])
    return rc


def replay(path):
    return MP.replay(PROP, path)
