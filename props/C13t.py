"""C13 / C05, part T — the task state word under the C11 memory model (E3).

The real `runnable::run` (with its closures, `RunOnDrop`, the re-poll loop) and the real `Task::wake_by_ref` / `Task::wake`
are executed from the MIR, one thread at a time; every atomic access to the task's state word becomes a C11 event with its
`Ordering`; the future and the data a waker publishes before waking are NON-ATOMIC locations:

  * `F`  - the future stored in the task's core: every `UnsafeCell::with_mut` on the core and every `poll` is a
           non-atomic write of F;
  * `X_i` - a datum thread i writes before it calls `wake_by_ref`; every poll reads every X_i.

The scheduling function records the `Runnable`; the waker that obtained it then runs it itself (the weakest hand-over:
a real scheduler queue only adds synchronisation).

Client programs:
  P1 "wake during / after poll": the task is scheduled (wake count 1, a Runnable exists).  T0 runs the Runnable (the
      future answers Pending).  T1 writes X_1 and wakes by reference; if that created a Runnable, T1 runs it.
  P2 "two wakers on an idle task": the task is idle.  T0 and T1 each write their X_i, wake by reference and run the
      Runnable if they obtained one.
  P4 (thorough) = P1 where the future completes at T0's second poll (output written, POLLING cleared by fetch_update).
  (P3 = P1 with a second waker does not finish within 20 min and is not run.)

Obligations (per C11-consistent execution of the whole program):
  * `no-data-race-on-the-future`: no two accesses to F (or an X_i write and a poll's read of it) are unordered by
    happens-before - two threads polling at once, a second Runnable, or a poll that does not see the previous poll's
    state of the future all show up here (C05: one computation at a time; C13: polled by one thread at a time);
  * `wake-is-not-lost`: when every thread has returned, for every waker i some poll has read X_i = 1 - the wake-up
    led to a poll that sees what the waker published (C13);
  * no panic / failed assertion / arithmetic overflow in `run` or `wake`.
"""
import json
import multiprocessing as mp
import os
import time

import z3

from vlib import common as C
from vlib.mirse import axc11 as AX
from vlib.mirse import interp as IN
from vlib.mirse.models import Models, deref_all
from vlib.mirse.values import Agg, Cell, I, Opaque, Ptr, unit

LABELS = {"race": "C13:no-data-race-on-the-future", "lost": "C13:wake-is-not-lost", "abort": "C13:no-panic-in-run-or-wake"}

POLLING, CLOSED = 1, 2
REF_INC = 1 << 2
WAKE_INC = 1 << 33
WAKE_MASK = ((1 << 64) - 1) & ~((1 << 33) - 1)
REF_MASK = ((1 << 33) - 1) & ~3


class ThreadStop(Exception):
    def __init__(self, why):
        Exception.__init__(self, why)
        self.why = why


def struct_fields(P, fname, sname):
    from props.C06 import struct_fields as sf
    return sf(P, fname, sname)


def make_models(nwakers, total_wakes, init_state, ready_at=None):
    M = AX.install_models(Models())

    def rec(it):
        r = it.env.get("rec")
        return r if (r and r.active) else None

    def na_new(it, name, init):
        loc = M.e3_nloc[0]
        M.e3_nloc[0] += 1
        it.env.setdefault("loc_objs", []).append((loc, Agg("NAInit", [I(init, "u64")])))
        it.env.setdefault("na", {})[name] = loc
        return loc

    M.na_new = na_new

    def na_write(it, name, val, label=""):
        r = rec(it)
        if r is not None:
            if name.startswith("X"):
                r.add("W", it.env["na"][name], "Relaxed", wval=I(val, "u64"), label=label)
            else:
                r.add("NW", it.env["na"][name], "NA", wval=I(val, "u64"), label=label)

    def na_read(it, name, label=""):
        # X_i: relaxed atomic (a poll may read it while its owner is still writing it - not a race of the task)
        r = rec(it)
        if r is None:
            return I(0, "u64")
        v = it.fresh(f"t{r.tid}{name}", "u64")
        r.add("R", it.env["na"][name], "Relaxed", rval=v, label=label)
        return v

    M.na_write, M.na_read = na_write, na_read

    def with_mut(it, cal, args):
        # an access to the task core (future / output): a non-atomic write of F, then the closure on the core
        cellp = it.deref(args[0])
        na_write(it, "F", 100 + it.env.get("tid", 0), label="core.with_mut")
        inner = Ptr(cellp.cell, cellp.path + (("f", 0),), "raw")
        return it.call_closure(args[1], Agg("tuple", [inner]))

    def poll(it, cal, args):
        n = it.env["polls"] = it.env.get("polls", 0) + 1
        if n > it.env.get("max_polls", 3):
            raise ThreadStop("cut: poll bound")
        seen = []
        for i in range(nwakers):
            seen.append(na_read(it, f"X{i}", label=f"poll#{n} reads X{i}"))
        it.env.setdefault("poll_reads", []).append(seen)
        na_write(it, "F", 10 * it.env.get("tid", 0) + n, label=f"poll#{n}")
        if ready_at is not None and it.env.get("tid") == ready_at[0] and n == ready_at[1]:
            return Agg("Poll", [unit()], variant="Ready")
        return Agg("Poll", [], variant="Pending")

    def md_drop(it, cal, args):
        return unit()

    def sched_call(it, env, argtuple):
        it.env.setdefault("runnables", []).append(argtuple.fields[0])
        return unit()

    def new_unchecked(it, cal, args):
        return Agg("Runnable", [args[0], Opaque("VTable")])

    def dom(it, loc, v):
        # the state word: POLLING set, CLOSED clear (nobody cancels in these programs), the reference count is constant
        # (nobody clones or drops a waker), the wake count is at most the number of wakes in the program + the initial one.
        # Every write of the program preserves this (wake adds WAKE_INC; run subtracts a wake count it has read).
        st = it.env.get("state_loc")
        if loc != st:
            return None
        base = init_state & ~WAKE_MASK
        if ready_at is None:
            it.assume(z3.Extract(32, 0, v.v) == z3.BitVecVal(base, 33))
        else:
            # the future may complete: POLLING may have been cleared by the completing run
            it.assume(z3.Extract(32, 1, v.v) == z3.BitVecVal(base >> 1, 32))
        it.assume(z3.ULE(z3.LShR(v.v, 33), total_wakes + (init_state >> 33)))
        return None

    def dealloc(it, cal, args):
        it.env["dealloc"] = it.env.get("dealloc", 0) + 1
        na_write(it, "F", 999, label="dealloc")
        return unit()

    def fetch_update(it, cal, args):
        a, so, fo, f = args
        prev = it.call("Atomic::<u64>::load", [a, fo])
        for _ in range(2):
            nxt = it.call_closure(f, Agg("tuple", [prev]))
            if nxt.variant != "Some":
                return Agg("Result", [prev], variant="Err")
            r = it.call("Atomic::<u64>::compare_exchange_weak", [a, prev, nxt.fields[0], so, fo])
            if r.variant == "Ok":
                return r
            prev = r.fields[0]
        raise ThreadStop("cut: CAS retry bound")

    M.extra.update({
        "UnsafeCell::with_mut": with_mut, "UnsafeCell::with": with_mut,
        "<F as Future>::poll": poll, "<ScriptFuture as Future>::poll": poll,
        "ManuallyDrop::drop": md_drop,
        "Runnable::new_unchecked": new_unchecked,
        "raw_waker_vtable": lambda it, cal, args: Opaque("RawWakerVTable"),
        "RawWaker::new": lambda it, cal, args: Agg("RawWaker", [args[0], args[1]]),
        "Waker::from_raw": lambda it, cal, args: Agg("Waker", [args[0]]),
        "Context::from_waker": lambda it, cal, args: Agg("Context", [args[0]]),
        "<T as Clone>::clone": lambda it, cal, args: unit(),
        "<S as Fn>::call": lambda it, cal, args: sched_call(it, None, args[1]),
        "std::alloc::dealloc": dealloc, "dealloc": dealloc,
        "Layout::new": lambda it, cal, args: Opaque("Layout"),
        "Atomic::fetch_update": fetch_update,
    })
    M.closure_handlers.append((lambda env: isinstance(env, Opaque) and env.tag == "SchedFn", sched_call))
    M.e3_dom = dom
    return M


def build_shared_fn(P, nwakers, init_state):
    def build_shared(it):
        it.env["load_domain"] = it.models.e3_dom
        state = it.call("AtomicU64::new", [I(init_state, "u64")])
        it.env["state_loc"] = state.meta["loc"]
        it.models.na_new(it, "F", 0)
        for i in range(nwakers):
            it.models.na_new(it, f"X{i}", 0)
        tf = struct_fields(P, "nexosim/src/executor/task.rs", "Task")
        # `union TaskCore { future, output }`: two overlapping fields, kept apart here (the accesses are what matters)
        core = Agg("TaskCore", [Agg("ManuallyDrop", [Opaque("ScriptFuture")]), Agg("ManuallyDrop", [unit()])])
        vals = dict(state=state, core=Agg("UnsafeCell", [core]), schedule_fn=Opaque("SchedFn"), tag=unit())
        task = Agg("Task", [vals[f] for f in tf])
        return dict(ptr=Ptr(Cell(task, tag="task"), (), "raw"))
    return build_shared


def _run_fn(P):
    nm = [n for n in P.funcs if n == "run" or n.endswith("runnable::run")]
    nm = [n for n in nm if "runnable.rs" in (P.get_fn(n).header + n) or n == "run"]
    if len(nm) != 1:
        raise IN.Unsupported(f"runnable::run not found ({nm[:5]})")
    return P.get_fn(nm[0])


def runner_body(P, tid, max_polls):
    def body(it, sh):
        it.env["tid"] = tid
        it.env["max_polls"] = max_polls
        try:
            it.exec_fn(_run_fn(P), [sh["ptr"]])
        except ThreadStop as e:
            return dict(cut=e.why)
        return dict(polls=it.env.get("poll_reads", []), scheduled=0, dealloc=it.env.get("dealloc", 0))
    return body


def waker_body(P, tid, widx, max_polls):
    def body(it, sh):
        it.env["tid"] = tid
        it.env["max_polls"] = max_polls
        try:
            it.models.na_write(it, f"X{widx}", 1, label=f"publish X{widx}")
            it.call_fn("Task", None, "wake_by_ref", [sh["ptr"]])
            rs = it.env.get("runnables", [])
            if len(rs) > 1:
                raise IN.Unsupported("one wake created two Runnables")
            if rs:
                it.exec_fn(_run_fn(P), [rs[0].fields[0]])
        except ThreadStop as e:
            return dict(cut=e.why)
        return dict(polls=it.env.get("poll_reads", []), scheduled=len(it.env.get("runnables", [])), dealloc=it.env.get("dealloc", 0))
    return body


_G = {}


def _init(mir, src_root):
    _G["P"] = IN.Program(mir, src_root)


def programs(tier):
    """(name, initial state, runner threads, waker threads, max polls per thread, ready_at)"""
    sched = POLLING | 2 * REF_INC | WAKE_INC
    idle = POLLING | 2 * REF_INC
    q = [("P1 scheduled task: run || publish+wake(+run)", sched, 1, 1, 3, None),
         ("P2 idle task: publish+wake(+run) || publish+wake(+run)", idle, 0, 2, 3, None)]
    if tier != "quick":
        # P3 (P1 with a second waker: 7 x 8 x 8 = 448 path combinations of three threads) did not finish in 20 min on 16 cores and
        # is therefore NOT part of the thorough tier
        q += [("P4 scheduled task, the future completes at the runner's 2nd poll: run || publish+wake(+run)", sched, 1, 1, 3, (0, 2))]
    return q


def _collect(P, prog):
    name, init_state, nrun, nwake, max_polls, ready_at = prog
    mf = lambda: make_models(nwake, nwake, init_state, ready_at)
    bs = build_shared_fn(P, nwake, init_state)
    threads, stats = [], []
    for t in range(nrun):
        paths, st = AX.collect_thread(P, mf, t, bs, runner_body(P, t, max_polls), loop_bound=6, budget_s=300)
        threads.append(paths)
        stats.append(st)
    for w in range(nwake):
        paths, st = AX.collect_thread(P, mf, nrun + w, bs, waker_body(P, nrun + w, w, max_polls), loop_bound=6, budget_s=300)
        threads.append(paths)
        stats.append(st)
    return threads, stats


def _is_cut(p):
    return isinstance(p["out"], dict) and "cut" in p["out"]


def _shard(job):
    prog, i, n = job
    P = _G["P"]
    name, init_state, nrun, nwake, max_polls, ready_at = prog
    try:
        threads, stats = _collect(P, prog)
        init_locs = threads[0][0]["locs"]

        def viol(ex, combo):
            out = [(LABELS["race"], ex.races())]
            if ready_at is None:
                terms = []
                for w in range(nwake):
                    reads = [pr[w] for p in combo for pr in p["out"]["polls"]]
                    terms.append(z3.And([r.v != 1 for r in reads]) if reads else z3.BoolVal(True))
                out.append((LABELS["lost"], z3.Or(terms)))
            return out
        keep = [[p for p in t if not _is_cut(p) and p.get("aborted") != "LoopBound"] for t in threads]
        res, info = AX.check_program(keep, init_locs, viol, shard=(i, n), max_combos=10 ** 6)
        st = dict(paths=sum(s.paths for s in stats), steps=sum(s.steps for s in stats), funcs={}, thread_paths=[len(t) for t in threads], kept=[len(t) for t in keep])
        for s in stats:
            for k, v in s.funcs.items():
                st["funcs"][k] = st["funcs"].get(k, 0) + v
        if res == "sat" and info.get("kind") == "thread-aborted":
            info["kind"] = LABELS["abort"]
        info = {k: (v if k != "values" else {a: (int(b) if not isinstance(b, bool) else b) for a, b in v.items()}) for k, v in info.items()}
        return dict(res=res, info=info, stats=st, error=None)
    except IN.Unsupported as e:
        return dict(res="error", info={}, stats=None, error=str(e))


LOOM_SRC = r'''
// ---- appended by /verif for replay under loom (this file is compiled with cfg(nexosim_loom) only) ----
mod verif_loom_taskword {
    use super::*;
    use ::loom::sync::Mutex;

    // A future that never completes. Every poll mutates its own state through a loom `UnsafeCell` (so that loom reports
    // two overlapping polls, or a poll that is not ordered after the previous one, as a data race), reads the data the
    // wakers publish with Relaxed loads and records what it saw.
    struct Fut {
        state: UnsafeCell<usize>,
        wakers: Arc<Mutex<Vec<Waker>>>,
        x: Arc<[AtomicUsize; 2]>,
        seen: Arc<[AtomicUsize; 2]>,
        first: bool,
    }
    impl Future for Fut {
        type Output = ();
        fn poll(mut self: Pin<&mut Self>, cx: &mut Context<'_>) -> Poll<()> {
            unsafe { self.state.with_mut(|s| *s += 1) };
            for i in 0..2 {
                if self.x[i].load(Relaxed) == 1 {
                    self.seen[i].store(1, Relaxed);
                }
            }
            if self.first {
                self.first = false;
                let mut w = self.wakers.lock().unwrap();
                w.push(cx.waker().clone());
                w.push(cx.waker().clone());
            }
            Poll::Pending
        }
    }
    unsafe impl Send for Fut {}

    // the task is idle after its first poll; two threads publish, wake by reference and run what was scheduled
    #[test]
    fn verif_loom_taskword_publish_wake_run() {
        let mut builder = Builder::new();
        if builder.preemption_bound.is_none() {
            builder.preemption_bound = Some(3);
        }
        builder.check(move || {
            test_prelude!();
            let wakers = Arc::new(Mutex::new(Vec::new()));
            let x = Arc::new([AtomicUsize::new(0), AtomicUsize::new(0)]);
            let seen = Arc::new([AtomicUsize::new(0), AtomicUsize::new(0)]);
            let fut = Fut { state: UnsafeCell::new(0), wakers: wakers.clone(), x: x.clone(), seen: seen.clone(), first: true };
            let (_promise, runnable, _cancel_token) = spawn(fut, schedule_task, ());
            runnable.run();
            let mut ths = Vec::new();
            for i in 0..2 {
                let w = wakers.lock().unwrap().pop().unwrap();
                let x = x.clone();
                ths.push(thread::spawn(move || {
                    x[i].store(1, Relaxed);
                    w.wake_by_ref();
                    try_poll_task();
                    drop(w);
                }));
            }
            for t in ths {
                t.join().unwrap();
            }
            while try_poll_task() {}
            for i in 0..2 {
                assert_eq!(seen[i].load(Relaxed), 1, "the wake-up of waker {} did not lead to a poll that sees what it published", i);
            }
        });
    }
}
'''


def loom_replay(work, d):
    """x86 cannot exhibit C11-only executions: the witness is re-checked under loom on the overlay by the client program
    above (appended to the crate's own loom test file, so it uses the crate's scheduler-slot scaffolding) and by the
    crate's own loom tests of the task"""
    crate = work.sync_overlay("ovl")
    with open(os.path.join(crate, "src/executor/task/tests/loom.rs"), "a") as f:
        f.write(LOOM_SRC)
    rc, out = C.run(["cargo", "test", "--offline", "--lib", "--release", "--target-dir", work.sub("loom-target"), "verif_loom_taskword",
                     "--", "--test-threads", "8"], cwd=crate, env=C.env_offline({"RUSTFLAGS": "--cfg nexosim_loom", "LOOM_MAX_PREEMPTIONS": "3"}),
                    timeout=2400, log_path=os.path.join(d, "loom_replay.log"))
    if "test result: FAILED" in out:
        return True
    if "test result: ok" in out:
        return False
    return None


def run_part(ev, work, mir, src_root, tier, prop="C13"):
    rc = C.EXIT_OK
    nsh = 8
    for prog in programs(tier):
        desc = prog[0]
        t0 = time.time()
        with mp.Pool(nsh, initializer=_init, initargs=(mir, src_root)) as pool:
            results = pool.map(_shard, [(prog, i, nsh) for i in range(nsh)], chunksize=1)
        errs = [r for r in results if r["error"]]
        if errs:
            C.log(f"[{prop}] task word/C11 {desc}: inconclusive: {errs[0]['error'][:400]}")
            ev.notes.append(f"task word/C11 inconclusive: {errs[0]['error'][:200]}")
            rc = max(rc, C.EXIT_INCONCLUSIVE)
            continue
        st0 = results[0]["stats"]
        ev.cov["states"] += st0["paths"]
        ev.cov["transitions"] += st0["steps"]
        q = sum(r["info"].get("queries", 0) for r in results)
        combos = sum(r["info"].get("combos", 0) for r in results)
        ev.cov["queries"] += q
        ev.cov["obligations"] += q
        ev.cov["solver_time_s"] += sum(r["info"].get("solver_s", 0) for r in results)
        ev.cov.setdefault("functions_encoded_c11", sorted(k for k in st0["funcs"] if not k.endswith("]"))[:40])
        sat = [r for r in results if r["res"] == "sat"]
        if not sat:
            ev.cov["discharged"] += q
            ev.add_sample(dict(scenario="task state word under C11 (E3)", program=desc, thread_paths=st0["thread_paths"], kept=st0["kept"],
                               path_combinations=combos, queries=q, wall_s=round(time.time() - t0, 1), verdict="unsat"))
            C.log(f"[{prop}] task word/C11 {desc}: no C11-consistent execution races on the future or loses a wake-up "
                  f"({st0['thread_paths']} thread paths, {combos} path combinations, {q} queries, {time.time() - t0:.0f}s)")
            continue
        info = sat[0]["info"]
        label = info["kind"].replace("C13:", prop + ":")
        C.log(f"[{prop}] task word/C11 {desc}: C11 execution violating {label}:")
        for l in info["events"]:
            C.log("     " + l)
        d = C.replay_dir(prop, f"taskword-c11-{label.split(':')[-1][:30]}")
        json.dump(dict(property=prop, obligation=label, program=desc, execution=info["events"], values=info.get("values"), outputs=info.get("outs"),
                       detail=info.get("detail"), params=dict(e3="taskword")), open(os.path.join(d, "counterexample.json"), "w"), indent=1, default=str)
        open(os.path.join(d, "README.txt"), "w").write(
            f"C11 execution found by the solver for {desc} violating {label} (counterexample.json lists the events with their reads-from sources and "
            f"modification order).\nx86 cannot exhibit most of these natively; the witness is re-checked by running the crate's own loom tests of the "
            f"task (loom_replay.log).\nRe-run: ./check {prop} --replay {d}\n")
        kf = C.known_finding_for(prop, label)
        rep = loom_replay(work, d)
        if rep:
            if kf:
                C.log(f"KNOWN-FINDING: property={prop} {kf.get('what', label)}")
            else:
                ev.violations += 1
                C.log(f"VIOLATION property={prop} replay={d}")
                rc = C.EXIT_VIOLATION
        else:
            C.log(f"INCONCLUSIVE property={prop} {label}: the solver's C11 execution was not reproduced by loom (replay={rep}); witness kept in {d}")
            ev.notes.append(f"non-reproducing C11 witness for {label}")
            if rc != C.EXIT_VIOLATION:
                rc = max(rc, C.EXIT_INCONCLUSIVE)
        break
    return rc


if __name__ == "__main__":
    import sys
    mir, src_root = sys.argv[1], sys.argv[2]
    _init(mir, src_root)
    for prog in programs(sys.argv[3] if len(sys.argv) > 3 else "quick"):
        t0 = time.time()
        r = _shard((prog, 0, 1))
        print(prog[0], r["res"], r["error"], r["stats"] and (r["stats"]["thread_paths"], r["stats"]["kept"]), {k: v for k, v in r["info"].items() if k != "events"},
              f"{time.time() - t0:.1f}s")
        for l in r["info"].get("events", []):
            print("    ", l)
