"""C12, part Q — the mailbox queue under the C11 memory model (E3).

Producer threads call the real `Queue::push`, the consumer thread the real `Queue::pop` / `MessageBorrow::drop` (MIR), each
thread executed in isolation; the atomics (enqueue_pos, dequeue_pos, slot stamps) become C11 events and every
`UnsafeCell::with_mut` on a slot's message becomes a non-atomic read + write event of that slot (the content - vacated
box / populated message id / none - travels through the reads-from relation).  Obligations per client program:
  * no data race on a slot (two conflicting non-atomic accesses unordered by happens-before),
  * no thread reaches `unreachable!()` / a failed assertion (it would have read a slot in the wrong state),
  * every popped message was pushed, none is popped twice, each producer's messages are popped in the order it pushed them.
"""
import json
import multiprocessing as mp
import os
import time

import z3

from vlib import common as C
from vlib.mirse import axc11 as AX
from vlib.mirse import interp as IN
from vlib.mirse.models import Models, deref_all
from vlib.mirse.values import Agg, Cell, I, Opaque, Ptr, unit

LABELS = {"race": "C12:no-data-race-on-a-slot", "abort": "C12:slot-state-consistent", "values": "C12:popped-values-are-the-pushed-ones-in-producer-order",
          "closed": "C12:accepted-messages-remain-receivable-after-close"}


class QSpec:
    def __init__(self, cap):
        self.cap = cap
        p2 = 1
        while p2 < cap:
            p2 <<= 1
        self.closed_mask = p2
        self.right_mask = (p2 << 1) - 1
        self.shift = self.right_mask.bit_length()


TAG = {"None": 0, "Vacated": 1, "Populated": 2}


def encode(it, v):
    """content of a slot's message cell -> u128 (tag << 64 | message id)"""
    if not isinstance(v, Agg) or v.variant not in TAG:
        raise IN.Unsupported(f"slot content {v!r}")
    if v.variant == "Populated":
        b = v.fields[0]
        pid = it.read_loc(b.cell, b.path)
        return I(z3.Concat(z3.BitVecVal(2, 64), pid.v), "u128")
    return I(TAG[v.variant] << 64, "u128")


def make_models(cap, max_seq, values=None):
    sp = QSpec(cap)
    M = AX.install_models(Models())

    def rec(it):
        r = it.env.get("rec")
        return r if (r and r.active) else None

    def cell_new(it, cal, args):
        loc = M.e3_nloc[0]
        M.e3_nloc[0] += 1
        a = Agg("UnsafeCell", [args[0]], meta={"loc": loc})
        it.env.setdefault("loc_objs", []).append((loc, Agg("NAInit", [encode(it, args[0])])))
        return a

    def with_mut(it, cal, args):
        cellp = it.deref(args[0])
        a = it.read_loc(cellp.cell, cellp.path)
        r = rec(it)
        inner = Ptr(cellp.cell, cellp.path + (("f", 0),), "raw")
        if r is None:
            return it.call_closure(args[1], Agg("tuple", [inner]))
        loc = a.meta["loc"]
        v = it.fresh(f"t{r.tid}n", "u128")
        v = M.e3_dom(it, loc, v) or v
        r.add("NR", loc, "NA", rval=v)
        tag = I(z3.Extract(71, 64, v.v), "u8")
        it.assume(z3.Extract(127, 72, v.v) == 0)
        it.assume(z3.ULT(tag.v, 3))
        t = it.concretize(tag, "slot-tag")
        if t == 0:
            content = Agg("MessageBox", [], variant="None")
        elif t == 1:
            content = Agg("MessageBox", [Ptr(Cell(unit(), tag="vacated"), (), "box")], variant="Vacated")
        else:
            content = Agg("MessageBox", [Ptr(Cell(I(z3.Extract(63, 0, v.v), "u64"), tag="msg"), (), "box")], variant="Populated")
        a.fields[0] = content
        res = it.call_closure(args[1], Agg("tuple", [inner]))
        if cal.method == "with_mut":
            r.add("NW", loc, "NA", wval=encode(it, a.fields[0]))
        return res

    def msgfn_call(it, cal, args):
        f = args[0]
        b = args[1].fields[0] if isinstance(args[1], Agg) and args[1].name == "tuple" else args[1]
        it.write_loc(b.cell, list(b.path), I(f.data["id"], "u64"))
        return b

    def rb_vacate(it, cal, args):
        b = args[0]
        if isinstance(b, Agg):
            b = b.fields[0]
        it.write_loc(b.cell, list(b.path), unit())
        return b

    def md_take(it, cal, args):
        v = it.load(args[0])
        return v.fields[0] if isinstance(v, Agg) and v.name == "ManuallyDrop" else v

    def dom(it, loc, v):
        # value-set of the location (fixpoint over the client program, see _collect): a read can only return a value that
        # is the initial one or is written somewhere in the program
        # a read returns the initial value, a value written by ANOTHER thread somewhere in the program (value sets per
        # thread, fixpoint in _collect) or a value this thread wrote earlier on this path (acyclic po U rf)
        init = dict(it.env.get("locs", []))
        if loc not in init:
            return None
        c0 = init[loc].concrete()
        if c0 is None:
            return None
        vs = {c0}
        r_ = it.env.get("rec")
        me = r_.tid if r_ else None
        for tid, tab in (values or {}).items():
            if tid == me:
                continue
            w = tab.get(loc)
            if w is None and loc in tab:
                return None   # some write of that thread is not concrete: unconstrained
            vs |= (w or set())
        if r_:
            for e in r_.events:
                if e.is_write() and e.loc == loc:
                    c = e.wval.concrete()
                    if c is None:
                        return None
                    vs.add(c)
        lim = max_seq << sp.shift
        if isinstance(v, I) and v.ty == "usize":
            vs = {x for x in vs if x < lim}   # laps beyond the number of operations of the client program are unreachable
        from vlib.mirse.values import B
        if isinstance(v, B):
            if len(vs) == 1:
                return B(next(iter(vs)))
            return B(it.branch(v.v, "load-bool"))
        if len(vs) == 1:
            c = next(iter(vs))
        else:
            it.assume(z3.Or([v.v == x for x in sorted(vs)]))
            c = it.concretize(v, "load-value")
        return I(c, v.ty)

    def rb_deref(it, cal, args):
        b = it.deref(it.load(args[0]))
        return Ptr(b.cell, b.path, "ref")

    M.extra.update({
        "<RecycleBox as Deref>::deref": rb_deref, "<RecycleBox as DerefMut>::deref_mut": rb_deref,
        "UnsafeCell::new": cell_new, "UnsafeCell::with_mut": with_mut, "UnsafeCell::with": with_mut,
        "<MsgFn as FnOnce>::call_once": msgfn_call,
        "RecycleBox::new": lambda it, cal, args: Ptr(Cell(args[0], tag="rbox"), (), "box"),
        "RecycleBox::vacate": rb_vacate, "ManuallyDrop::take": md_take,
        "<Vec as Into>::into": lambda it, cal, args: it.alloc(Agg("array", args[0].fields), tag="boxslice", kind="box"),
        "<Vec as From>::from": lambda it, cal, args: args[0],
    })
    M.closure_handlers.append((lambda env: isinstance(env, Opaque) and env.tag == "MsgFn",
                               lambda it, env, argtuple: msgfn_call(it, None, [env, argtuple])))
    M.e3_dom = dom
    return M


class ThreadStop(Exception):
    pass


def build_shared_fn(cap, models):
    def build_shared(it):
        it.env["load_domain"] = it.models.e3_dom
        q = it.call_fn("Queue", None, "new", [I(cap, "usize")])
        return dict(q=Ptr(Cell(q, tag="queue"), (), "ref"))
    return build_shared


def producer_body(ids):
    def body(it, sh):
        out = []
        for k in ids:
            if k == "close":
                # another sender handle closes the channel (Queue::close)
                it.call_fn("Queue", None, "close", [sh["q"]])
                out.append(("closed",))
                continue
            r = it.call_fn("Queue", None, "push", [sh["q"], Opaque("MsgFn", id=k)])
            out.append(("Ok",) if r.variant == "Ok" else (r.fields[0].variant,))
        return out
    return body


def consumer_body(npop):
    def body(it, sh):
        out = []
        for _ in range(npop):
            r = it.call_fn("Queue", None, "pop", [sh["q"]])
            if r.variant == "Ok":
                b = r.fields[0]
                holder = Ptr(Cell(b, tag="borrow"), (), "ref")
                m = it.call_fn("MessageBorrow", "Deref", "deref", [holder])
                v = deref_all(it, m)
                out.append(("Ok", v))
                it.call_fn("MessageBorrow", "Drop", "drop", [holder])
            else:
                out.append((r.fields[0].variant, None))
        return out
    return body


_G = {}


def _init(mir, src_root):
    _G["P"] = IN.Program(mir, src_root)


def _collect(P, prog):
    cap, prods, npop, max_seq = prog
    bs = build_shared_fn(cap, None)
    values = None
    for rnd in range(12):
        mf = lambda: make_models(cap, max_seq, values)
        threads, stats = [], []
        for t, ids in enumerate(prods):
            paths, st = AX.collect_thread(P, mf, t, bs, producer_body(ids), loop_bound=4, budget_s=300)
            threads.append(paths)
            stats.append(st)
        paths, st = AX.collect_thread(P, mf, len(prods), bs, consumer_body(npop), loop_bound=4, budget_s=300)
        threads.append(paths)
        stats.append(st)
        # value sets: initial values + every value written on some path (all concrete once the reads are)
        new = {}
        for tid, t in enumerate(threads):
            tab = new.setdefault(tid, {})
            for p in t:
                for e in p["events"]:
                    if e.is_write() and e.wval is not None:
                        c = e.wval.concrete()
                        if c is None:
                            tab[e.loc] = None
                        elif tab.get(e.loc, set()) is not None:
                            tab.setdefault(e.loc, set()).add(c)
        if new == values:
            break
        values = new
    else:
        raise IN.Unsupported("value-set fixpoint not reached in 12 rounds")
    return threads, stats


def _shard(job):
    prog, i, n = job
    P = _G["P"]
    cap, prods, npop, max_seq = prog
    try:
        threads, stats = _collect(P, prog)
        init_locs = threads[0][0]["locs"]
        allids = [k for ids in prods for k in ids]

        def viol(ex, combo):
            out = [(LABELS["race"], ex.races())]
            cons = combo[-1]["out"]
            popped = [o[1] for o in cons if o[0] == "Ok"]
            terms = []
            for x, v in enumerate(popped):
                # pushed by somebody whose push returned Ok
                okids = [k for t, ids in enumerate(prods) for j, k in enumerate(ids) if k != "close" and combo[t]["out"][j] == ("Ok",)]
                terms.append(z3.Not(z3.Or([v.v == k for k in okids])) if okids else z3.BoolVal(True))
                for y in range(x + 1, len(popped)):
                    terms.append(popped[y].v == v.v)                           # popped twice
                    for ids in prods:                                           # producer order
                        ids = [k for k in ids if k != "close"]
                        for a in range(len(ids)):
                            for b in range(a + 1, len(ids)):
                                terms.append(z3.And(v.v == ids[b], popped[y].v == ids[a]))
            if terms:
                out.append((LABELS["values"], z3.Or(terms)))
            # a pop may answer Closed only when every accepted message has been popped before
            accepted = [k for t, ids in enumerate(prods) for j, k in enumerate(ids) if k != "close" and combo[t]["out"][j] == ("Ok",)]
            seen = []
            for o in cons:
                if o[0] == "Ok":
                    seen.append(o[1])
                elif o[0] == "Closed" and accepted:
                    missing = [z3.And([s.v != k for s in seen]) if seen else z3.BoolVal(True) for k in accepted]
                    out.append((LABELS["closed"], z3.Or(missing)))
            return out
        keep = [[p for p in t if not (p.get("aborted") == "LoopBound")] for t in threads]
        res, info = AX.check_program(keep, init_locs, viol, shard=(i, n), max_combos=10 ** 6)
        st = dict(paths=sum(s.paths for s in stats), steps=sum(s.steps for s in stats), funcs={}, thread_paths=[len(t) for t in threads], kept=[len(t) for t in keep])
        for s in stats:
            for k, v in s.funcs.items():
                st["funcs"][k] = st["funcs"].get(k, 0) + v
        if res == "sat" and info.get("kind") == "thread-aborted":
            info["kind"] = LABELS["abort"]
        info = {k: (v if k != "values" else {a: (int(b) if not isinstance(b, bool) else b) for a, b in v.items()}) for k, v in info.items()}
        return dict(res=res, info=info, stats=st, error=None)
    except IN.Unsupported as e:
        return dict(res="error", info={}, stats=None, error=str(e))


def programs(tier):
    """(capacity, producers' message ids, pops, lap bound).  Thread-isolated path enumeration explodes on the queue's
    retry loops as soon as a thread performs two operations (measured: > 30000 producer paths for two pushes), so the
    client programs are one push racing with one pop: the hand-over of the message from the producer to the consumer."""
    q = [(1, [[11]], 1, 3), (2, [[11]], 1, 3), (1, [[11], ["close"]], 1, 3)]
    if tier != "quick":
        q += [(3, [[11]], 1, 3), (4, [[11]], 1, 3), (2, [[11], ["close"]], 1, 3)]
    return q


LOOM_SRC = r'''
// ---- appended by /verif for replay under loom (cfg(all(test, nexosim_loom)) only) ----
#[cfg(all(test, nexosim_loom))]
mod verif_loom_replay {
    use super::*;
    use loom::model::Builder;
    use loom::thread;

    #[test]
    fn verif_loom_queue_handover() {
        for capacity in [1usize, 2] {
            let mut builder = Builder::new();
            if builder.preemption_bound.is_none() { builder.preemption_bound = Some(4); }
            builder.check(move || {
                let (producer, mut consumer) = queue::<usize>(capacity);
                let th = thread::spawn(move || { let _ = producer.push(|b| RecycleBox::recycle(b, 11)); });
                loop {
                    match consumer.pop() {
                        Ok(msg) => { assert_eq!(*msg, 11); break; }
                        Err(_) => thread::yield_now(),
                    }
                }
                th.join().unwrap();
            });
        }
    }

    #[test]
    fn verif_loom_queue_close() {
        // a push that was accepted (returned Ok) must be receivable even if the channel is closed concurrently
        let mut builder = Builder::new();
        if builder.preemption_bound.is_none() { builder.preemption_bound = Some(4); }
        builder.check(move || {
            let (producer, mut consumer) = queue::<usize>(1);
            let closer = producer.clone();
            let accepted = loom::sync::Arc::new(loom::sync::atomic::AtomicUsize::new(0));
            let acc = accepted.clone();
            let tp = thread::spawn(move || {
                if producer.push(|b| RecycleBox::recycle(b, 11)).is_ok() { acc.store(1, Ordering::Release); }
            });
            let tc = thread::spawn(move || closer.close());
            let mut got = false;
            loop {
                match consumer.pop() {
                    Ok(msg) => { assert_eq!(*msg, 11); got = true; }
                    Err(PopError::Closed) => break,
                    Err(PopError::Empty) => thread::yield_now(),
                }
            }
            tp.join().unwrap();
            tc.join().unwrap();
            if accepted.load(Ordering::Acquire) == 1 && !got {
                panic!("an accepted message was not receivable: pop answered Closed while the push was in flight");
            }
        });
    }
}
'''


def loom_replay(work, d):
    crate = work.sync_overlay("ovl")
    with open(os.path.join(crate, "src/channel/queue.rs"), "a") as f:
        f.write(LOOM_SRC)
    rc, out = C.run(["cargo", "test", "--offline", "--lib", "--release", "--target-dir", work.sub("loom-target"), "verif_loom_queue",
                     "--", "--test-threads", "4"], cwd=crate, env=C.env_offline({"RUSTFLAGS": "--cfg nexosim_loom", "LOOM_MAX_PREEMPTIONS": "4"}),
                    timeout=2400, log_path=os.path.join(d, "loom_replay.log"))
    if "test result: FAILED" in out:
        return True
    if "test result: ok" in out:
        return False
    return None


def run_part(ev, work, mir, src_root, tier):
    rc = C.EXIT_OK
    nsh = 8
    for prog in programs(tier):
        cap, prods, npop, _ = prog
        desc = f"capacity {cap}: {len(prods)} producer(s) pushing {prods} || consumer: {npop} x (pop, read message, drop borrow)"
        t0 = time.time()
        with mp.Pool(nsh, initializer=_init, initargs=(mir, src_root)) as pool:
            results = pool.map(_shard, [(prog, i, nsh) for i in range(nsh)], chunksize=1)
        errs = [r for r in results if r["error"]]
        if errs:
            C.log(f"[C12] queue/C11 {desc}: inconclusive: {errs[0]['error'][:300]}")
            ev.notes.append(f"queue/C11 inconclusive: {errs[0]['error'][:200]}")
            rc = max(rc, C.EXIT_INCONCLUSIVE)
            continue
        st0 = results[0]["stats"]
        ev.cov["states"] += st0["paths"]
        ev.cov["transitions"] += st0["steps"]
        q = sum(r["info"].get("queries", 0) for r in results)
        combos = sum(r["info"].get("combos", 0) for r in results)
        ev.cov["queries"] += q
        ev.cov["obligations"] += q
        ev.cov["solver_time_s"] += sum(r["info"].get("solver_s", 0) for r in results)
        sat = [r for r in results if r["res"] == "sat"]
        if not sat:
            ev.cov["discharged"] += q
            ev.add_sample(dict(scenario="queue under C11 (E3)", program=desc, thread_paths=st0["thread_paths"], path_combinations=combos, queries=q,
                               wall_s=round(time.time() - t0, 1), verdict="unsat"))
            C.log(f"[C12] queue/C11 {desc}: no C11-consistent execution races on a slot or yields a wrong message ({combos} path combinations, {q} queries, {time.time() - t0:.0f}s)")
            continue
        info = sat[0]["info"]
        label = info["kind"]
        C.log(f"[C12] queue/C11 {desc}: C11 execution violating {label}:")
        for l in info["events"]:
            C.log("     " + l)
        d = C.replay_dir("C12", f"queue-c11-cap{cap}-{label.split(':')[-1][:30]}")
        json.dump(dict(property="C12", obligation=label, program=desc, execution=info["events"], values=info.get("values"), outputs=info.get("outs"),
                       params=dict(e3="queue")), open(os.path.join(d, "counterexample.json"), "w"), indent=1, default=str)
        open(os.path.join(d, "README.txt"), "w").write(
            f"C11 execution found by the solver for {desc} violating {label} (counterexample.json lists the events with their reads-from sources and "
            f"modification order).\nx86 cannot exhibit it natively; it is re-checked by running the same client program under loom (loom_replay.log).\n"
            f"Re-run: ./check C12 --replay {d}\n")
        kf = C.known_finding_for("C12", label)
        rep = loom_replay(work, d)
        if rep:
            if kf:
                C.log(f"KNOWN-FINDING: property=C12 {kf.get('what', label)}")
            else:
                ev.violations += 1
                C.log(f"VIOLATION property=C12 replay={d}")
                rc = C.EXIT_VIOLATION
        else:
            C.log(f"INCONCLUSIVE property=C12 {label}: the solver's C11 execution was not reproduced by loom (replay={rep}); witness kept in {d}")
            ev.notes.append(f"non-reproducing C11 witness for {label}")
            if rc != C.EXIT_VIOLATION:
                rc = max(rc, C.EXIT_INCONCLUSIVE)
        break
    return rc
