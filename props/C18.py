"""C18 — clock synchronisation gates every time step (E2 with a recording, scripted clock)."""
import itertools

from vlib import drvprop as DP
from vlib.family import run_prop
from vlib.shapes import S, STEP, UNTIL, dedup, job, steppers

PROP = "C18"
GROUPS = {"C18"}


def shapes(tier):
    J = []
    clocks = [[], ["lag"], ["ok", "lag"], ["lag", "lag"], ["ok", "ok", "lag"]]
    for tol in (False, True):
        for clock in clocks:
            for st in steppers(2, dls=("abs",)) + [[UNTIL("rel")], [STEP, STEP, STEP]]:
                J.append(job([S("once", 1), S("periodic", 2, dl="rel")] + st, tolerance=tol, clock=clock, max_steps=3))
            J.append(job([S("once", 1), STEP, S("once", 2, dl="rel"), UNTIL("abs")], tolerance=tol, clock=clock, max_steps=3))
            J.append(job([UNTIL("abs"), UNTIL("rel")], tolerance=tol, clock=clock))
    if tier == "thorough":
        for tol in (False, True):
            for clock in itertools.product(("ok", "lag"), repeat=3):
                for st in steppers(3, dls=("abs",)):
                    J.append(job([S("once", 1), S("periodic", 2, dl="rel"), S("once", 3, origin=1)] + st, tolerance=tol, clock=list(clock), max_steps=3))
    return dedup(J)


def run(tier, only=None):
    return run_prop(PROP, GROUPS, tier, shapes(tier), {
        "shapes": "2 (thorough: 3) actions + <= 3 stepping commands; the k-th synchronize() answers Synchronized or OutOfSync(symbolic lag) "
                  "according to every script of length <= 3; with and without a (symbolic) tolerance",
    }, outside=["SimInit::init's own synchronize(start time) (not part of the driver-logic world)",
                "what a real clock does inside synchronize()"], only=only)


def replay(path):
    return DP.replay(PROP, path, GROUPS)
