"""C18 — clock synchronisation gates every time step (E2 with a recording, scripted clock)."""
import itertools

from vlib import drvprop as DP
from vlib.family import run_prop
from vlib.shapes import S, STEP, UNTIL, dedup, job, steppers

PROP = "C18"
GROUPS = {"C18"}


def shapes(tier):
    J = []
    clocks = [[], ["lag"], ["ok", "lag"], ["lag", "lag"], ["ok", "ok", "lag"]]
    for tol in (False, True):
        for clock in clocks:
            for st in steppers(2, dls=("abs",)) + [[UNTIL("rel")], [STEP, STEP, STEP]]:
                J.append(job([S("once", 1), S("periodic", 2, dl="rel")] + st, tolerance=tol, clock=clock, max_steps=3))
            J.append(job([S("once", 1), STEP, S("once", 2, dl="rel"), UNTIL("abs")], tolerance=tol, clock=clock, max_steps=3))
            J.append(job([UNTIL("abs"), UNTIL("rel")], tolerance=tol, clock=clock))
    if tier == "thorough":
        for tol in (False, True):
            for clock in itertools.product(("ok", "lag"), repeat=3):
                for st in steppers(2, dls=("abs",)):
                    J.append(job([S("once", 1), S("periodic", 2, dl="rel"), S("once", 3, origin=1)] + st, tolerance=tol, clock=list(clock), max_steps=3))
    return dedup(J)


def make_models():
    from props import C06
    return C06.make_models()


def scenario_init(it, params):
    """SimInit::init(start time): writes the start time, synchronizes ONCE on it, then runs the executor (initialisation code)"""
    import z3
    from props import C06
    from vlib.mirse.models import mk_dur, mk_time, none, ok
    from vlib.mirse.values import Agg, B, Cell, Opaque, Ptr, Z, unit
    from vlib.mirse import driver as D
    P = it.P
    ev = []
    it.env["witness"] = dict(scenario="init")
    t0 = D.SymParams(it).time("t0")

    def run(it_, cal, args):
        ev.append(("run",))
        return ok(unit())

    def sync(it_, cal, args):
        ev.append(("sync", D.T(args[1])))
        return Agg("SyncStatus", [], variant="Synchronized")

    it.models.extra.update({"Executor::run": run, "executor::Executor::run": run, "<TestClock as Clock>::synchronize": sync})
    wname = P.find_def("SyncCell", None, "write")
    it.fn_hooks[wname[0]] = lambda itp, fn, args: ev.append(("timewrite", D.T(args[1])))
    names = C06.struct_fields(P, "nexosim/src/simulation/sim_init.rs", "SimInit")
    pq = it.call_fn("PriorityQueue", None, "new", [])
    tat = it.call_fn("TearableAtomicTime", None, "new", [mk_time(0)])
    vals = {
        "executor": Opaque("Executor"), "scheduler_queue": it.alloc(Agg("Mutex", [pq, B(False)]), tag="schedq", kind="arc"),
        "time": it.call_fn("SyncCell", None, "new", [tat]), "clock": it.alloc(Opaque("TestClock"), tag="clock", kind="box"),
        "clock_tolerance": none(), "timeout": mk_dur(0), "observers": Agg("Vec", []), "abort_signal": it.call_fn("Signal", None, "new", []),
        "model_names": Agg("Vec", []),
    }
    if sorted(names) != sorted(vals):
        from vlib.mirse.interp import Unsupported
        raise Unsupported(f"SimInit has fields the scenario does not know: {names}")
    init = Agg("SimInit", [vals[n] for n in names], meta=names)
    r = it.call_fn("SimInit", None, "init", [init, mk_time(Z(t0))])
    it.check(B(r.variant == "Ok"), "C18:init-ok", "")
    syncs = [e for e in ev if e[0] == "sync"]
    it.check(B(len(syncs) == 1), "C18:init-synchronizes-exactly-once", f"{len(syncs)} synchronize call(s) during init")
    if syncs:
        it.check(syncs[0][1] == t0, "C18:init-synchronizes-on-the-start-time", "")
        kinds = [e[0] for e in ev]
        it.check(B("run" not in kinds[:kinds.index("sync")]), "C18:init-synchronizes-before-any-init-code", "")
        it.check(B("timewrite" in kinds[:kinds.index("sync")]), "C18:init-sets-the-time-before-synchronizing", "")
    if r.variant == "Ok":
        sim = r.fields[0].fields[0]
        now = it.call_fn("Simulation", None, "time", [Ptr(Cell(sim, tag="sim"), (), "ref")])
        it.check(D.T(now) == t0, "C18:init-time-is-start-time", "")


def _native_init(work, job, v, d):
    """replay: SimInit::init through the public API with a recording clock (the script runner reports the init-time synchronize calls)"""
    import os
    from vlib.mirse import native as NV
    from vlib import common as C
    exe, out = NV.build_runner(work)
    if not exe:
        return None
    t0 = int(v["vals"].get("t0.t", 0))
    if t0 == 0:
        t0 = 1234567890_000000000   # the start time is universally quantified: use a non-trivial one for the replay
    spath = os.path.join(d, "script.txt")
    nobs, raw = NV.run_native(exe, f"t0 {t0}\ntol none\nstep\n", spath)
    open(os.path.join(d, "native_trace.txt"), "w").write(raw)
    inits = [int(l.split()[2]) for l in raw.splitlines() if l.startswith("VERIF-INIT initsync")]
    open(os.path.join(d, "README.txt"), "w").write(
        f"Counterexample for C18 ({v['label']}): SimInit::init({t0}) through the public API with a recording clock; synchronize calls during "
        f"init: {inits} (expected exactly [{t0}]).\nRe-run: ./check C18 --replay {d}\n")
    return inits != [t0]


def init_check(tier, ev):
    from vlib import scnprop as SP
    return SP.run(PROP, tier, ev, "props.C18", [dict(scenario="scenario_init", params={})], native_replay=_native_init, work_key="mirse-C18")


def run(tier, only=None):
    return run_prop(PROP, GROUPS, tier, shapes(tier), {
        "shapes": "2 (thorough: 3) actions + <= 3 stepping commands; the k-th synchronize() answers Synchronized or OutOfSync(symbolic lag) "
                  "according to every script of length <= 3; with and without a (symbolic) tolerance",
    }, outside=["what a real clock does inside synchronize()"], only=only, extra=(lambda ev: init_check(tier, ev)) if not only else None)


def replay(path):
    import json
    import os
    ce = json.load(open(os.path.join(path, "counterexample.json")))
    if "witness" in ce:
        from vlib import common as C
        work = C.WorkDir("mirse-C18")
        try:
            ok = _native_init(work, {}, dict(vals=ce["values"], label=ce["obligation"]), path)
            if ok:
                C.log(f"VIOLATION property={PROP} replay={path}")
                return C.EXIT_VIOLATION
            return C.EXIT_OK if ok is False else C.EXIT_INCONCLUSIVE
        finally:
            work.close()
    return DP.replay(PROP, path, GROUPS)
