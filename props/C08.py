"""C08 — scheduling requests are validated and race-free (E2: MIRSE on scheduler.rs + simulation.rs)."""
from vlib import common as C
from vlib import drvprop as DP
from vlib.shapes import CANCEL, KINDS, S, STEP, UNTIL, dedup, job

PROP = "C08"
GROUPS = {"C08"}
FILES = ["nexosim/src/simulation/scheduler.rs", "nexosim/src/simulation.rs", "nexosim/src/time.rs",
         "nexosim/src/util/priority_queue.rs", "nexosim/src/util/sync_cell.rs", "nexosim/src/time/monotonic_time.rs"]


def shapes(tier):
    J = []
    dls = ("abs", "rel")
    # (a) validation of one request from the initial state and after time has moved
    for k in KINDS:
        for dl in dls:
            J.append(job([S(k, 1, dl=dl)]))
            J.append(job([S("once", 9, dl="abs"), STEP, S(k, 1, dl=dl)]))
            # (b)/(c) an accepted request fires at its deadline and every stepping call returns
            J.append(job([S(k, 1, dl=dl), STEP]))
            J.append(job([S(k, 1, dl=dl), UNTIL("abs")], max_steps=3))
            J.append(job([S(k, 1, dl=dl), STEP, STEP]))
    # the same through the event API: Scheduler::schedule_*event (origin 0) and Context::schedule_*event (model origins)
    for k in KINDS:
        for dl in dls:
            for o in (0, 1, 2):
                J.append(job([S(k, 1, dl=dl, origin=o, api="event")]))
                J.append(job([S("once", 9, dl="abs"), STEP, S(k, 1, dl=dl, origin=o, api="event"), STEP]))
                J.append(job([S(k, 1, dl=dl, origin=o, api="event"), UNTIL("abs")], max_steps=3))
    # a rejected request has no effect: other actions still fire as if it had not been made
    for k in ("once", "periodic"):
        for dl in dls:
            J.append(job([S("once", 1, dl="abs"), S(k, 2, dl=dl), STEP, STEP]))
    # requests made by handlers while the simulation is stepping (effects run inside the executor run)
    for k in ("once", "periodic", "keyed"):
        for dl in dls:
            J.append(job([S("once", 1, dl="abs", effect=dict(op="sched", kind=k, dl=dl, id=2)), STEP, STEP]))
            J.append(job([S("once", 1, dl="abs", effect=dict(op="sched", kind=k, dl=dl, id=2)), UNTIL("abs")], max_steps=3))
    # requests issued through a Scheduler handle while the stepping thread is inside Clock::synchronize, i.e. at the one
    # point of a step where it does not hold the queue lock and no handler runs (another thread's request lands there)
    for k in ("once", "periodic", "keyed"):
        for dl in dls:
            req = dict(op="sched", kind=k, dl=dl, id=7)
            J.append(job([S("once", 1), STEP, STEP], clock=[req]))
            J.append(job([S("once", 1), S("once", 2, dl="rel"), STEP, STEP, STEP], clock=["ok", req]))
            J.append(job([S("once", 1), UNTIL("abs"), STEP], clock=[req], max_steps=3))
            J.append(job([UNTIL("abs"), STEP], clock=[req]))
    if tier == "thorough":
        for k1 in KINDS:
            for k2 in KINDS:
                for d1 in dls:
                    for d2 in dls:
                        J.append(job([S(k1, 1, dl=d1), S(k2, 2, dl=d2), STEP, STEP]))
                        J.append(job([S(k1, 1, dl=d1), S(k2, 2, dl=d2), UNTIL("rel"), STEP], max_steps=4))
        for k in KINDS:
            for dl in dls:
                J.append(job([S("periodic", 1, dl="abs", effect=dict(op="sched", kind=k, dl=dl, id=2)), UNTIL("abs"), STEP], max_steps=4))
    return dedup(J)


def run(tier, only=None):
    ev = C.Evidence(PROP, tier)
    ev.cov["source_sha256"] = C.source_hashes(FILES)
    jobs = shapes(tier)
    if only:
        jobs = [j for j in jobs if only in DP.short(j["script"])]
    ev.cov["bounds"] = {
        "shapes": "validation of every request kind (once/periodic/keyed/keyed-periodic x absolute/relative deadline) from the "
                  "initial state and after a step; accepted request followed by step/step_until; requests issued by handlers during a step",
        "numbers": "start time, every deadline, period and step_until target: symbolic over the full range of MonotonicTime/Duration "
                   "(total nanoseconds as an integer); periods include 0",
        "step_until_outer_loop": "<= 3-4 distinct due times per step_until (paths beyond are cut, not claimed)",
        "entry_points": "Scheduler::schedule (pre-built actions) -> GlobalScheduler::schedule_from",
    }
    ev.cov["outside_claim"] = ["real preemption of a stepping thread by scheduling threads (the lock discipline is checked structurally, see level_note)",
                               "the executor and mailboxes (environment model: every spawned future runs to completion inside run())",
                               "MonotonicTime overflow panics", "step_until crossing more distinct due times than the bound"]
    rc = DP.run_family(PROP, tier, ev, jobs, groups=GROUPS, validate_scripts=24 if tier == "quick" else 120)
    ev.write({0: "held on everything explored", 1: "violation", 2: "inconclusive"}[rc])
    return rc


def replay(path):
    return DP.replay(PROP, path, GROUPS)
