"""C01 — chronological execution: every action runs exactly at its deadline (E2: MIRSE on the driver logic)."""
from vlib import drvprop as DP
from vlib.family import run_prop
from vlib.shapes import CANCEL, PROCESS, S, STEP, UNTIL, dedup, job, steppers

PROP = "C01"
GROUPS = {"C01"}


def shapes(tier):
    J = []
    dls = ("abs", "rel")
    kinds = ("once", "periodic")
    # two scheduled actions (any mix of one-shot/periodic, absolute/relative, two origins) followed by two stepping commands
    for k1 in kinds:
        for d1 in dls:
            for k2 in kinds:
                for d2 in dls:
                    for o2 in (0, 1):
                        for st in steppers(2, dls=("abs",)):
                            nu = sum(1 for c in st if c["op"] == "until")
                            nper = (k1 == "periodic") + (k2 == "periodic")
                            ms = 3 if nu * nper <= 1 else 2
                            if nu == 2 and nper == 2:
                                continue  # two series under two step_until: > 4000 paths, thorough tier only
                            J.append(job([S(k1, 1, dl=d1), S(k2, 2, dl=d2, origin=o2)] + st, max_steps=ms))
    # three one-shot actions, all orders/ties decided by the solver
    for st in steppers(2, dls=("abs",)) + [[UNTIL("rel")], [STEP, STEP, STEP]]:
        J.append(job([S("once", 1), S("once", 2, dl="rel"), S("once", 3, origin=2)] + st, max_steps=4))
    # interleaved scheduling and stepping
    for k in kinds:
        for d in dls:
            J.append(job([S("once", 1), STEP, S(k, 2, dl=d), STEP, STEP]))
            J.append(job([S(k, 1, dl=d), UNTIL("abs"), S("once", 2, dl="rel"), UNTIL("rel")], max_steps=3))
    # process() leaves the time alone; step_until with a past / present target
    J.append(job([S("once", 1), PROCESS(7), STEP]))
    J.append(job([PROCESS(7), S("periodic", 1, dl="rel"), PROCESS(8), UNTIL("abs")], max_steps=3))
    J.append(job([UNTIL("abs"), UNTIL("abs")]))
    J.append(job([S("once", 1), STEP, UNTIL("abs"), STEP]))
    # handlers that schedule further actions while a step runs
    for k in kinds:
        for d in dls:
            eff = dict(op="sched", kind=k, dl=d, id=2)
            J.append(job([S("once", 1, effect=eff), STEP, STEP]))
            J.append(job([S("once", 1, effect=eff), UNTIL("abs")], max_steps=3))
            J.append(job([S("periodic", 1, origin=1, effect=eff), UNTIL("rel"), STEP], max_steps=3))
    # every request kind through the event API (Scheduler::schedule_*event / Context::schedule_*event)
    for k in ("once", "periodic", "keyed", "kperiodic"):
        for d in dls:
            for o in (0, 2):
                J.append(job([S(k, 1, dl=d, origin=o, api="event"), STEP, STEP]))
                J.append(job([S("once", 5), S(k, 1, dl=d, origin=o, api="event"), UNTIL("abs")], max_steps=3))
    # a request arriving through a Scheduler handle while the stepping thread is inside Clock::synchronize (no lock held)
    for k in kinds:
        for d in dls:
            req = dict(op="sched", kind=k, dl=d, id=7)
            J.append(job([S("once", 1), STEP, STEP, STEP], clock=[req]))
            J.append(job([S("once", 1), S("once", 2, dl="rel"), UNTIL("abs"), STEP], clock=["ok", req], max_steps=3))
    # cancelled actions are skipped when choosing the next time
    J.append(job([S("keyed", 1), S("once", 2), CANCEL(1), STEP, STEP]))
    J.append(job([S("keyed", 1), CANCEL(1), STEP, UNTIL("abs")]))
    if tier == "thorough":
        J.append(dict(job([S("periodic", 1), S("periodic", 2, dl="rel", origin=1), UNTIL("abs"), UNTIL("abs")], max_steps=2), budget_s=1500))
        kinds4 = ("once", "periodic", "kperiodic")   # (all four kinds for both: > 90 min on 16 cores)
        for k1 in kinds4:
            for k2 in kinds4:
                for k3 in ("once", "periodic"):
                    for st in steppers(2, dls=("abs",)):
                        if sum(1 for c in st if c["op"] == "until") > 1:
                            continue   # three actions under two step_until: minutes per shape
                        if k3 == "periodic" and k1 != "once" and k2 != "once" and any(c["op"] == "until" for c in st):
                            continue   # three periodic series under a step_until: > 40 min per shape
                        J.append(job([S(k1, 1), S(k2, 2, dl="rel", origin=1), S(k3, 3, origin=0)] + st, max_steps=3))
        for st in steppers(3, dls=("abs", "rel")):
            J.append(job([S("periodic", 1), S("once", 2, dl="rel")] + st, max_steps=4))
    return dedup(J)


def run(tier, only=None):
    return run_prop(PROP, GROUPS, tier, shapes(tier), {
        "shapes": "<= 3 scheduled actions (one-shot/periodic, absolute/relative deadline, origins global/model a/model b, optional handler that schedules "
                  "a further action or cancels a key) interleaved with <= 3 stepping commands over {step, step_until(abs|rel), process}",
        "step_until_outer_loop": "<= 3-4 distinct due times per step_until",
    }, only=only)


def replay(path):
    return DP.replay(PROP, path, GROUPS)
