"""C13 — task lifecycle is safe under every interleaving of its handles (E1: Kani, one operation from an arbitrary RI state, SC)."""
import os

from vlib import common as C
from vlib import kaniprop as KP

PROP = "C13"
FILES = ["nexosim/src/executor/task.rs", "nexosim/src/executor/task/runnable.rs", "nexosim/src/executor/task/promise.rs",
         "nexosim/src/executor/task/cancel_token.rs", "nexosim/src/executor/task/util.rs"]

ALL = ["c13_run_pending_from_scheduled", "c13_run_ready_from_scheduled", "c13_run_last_owner", "c13_run_or_drop_in_winddown",
       "c13_drop_runnable_scheduled", "c13_cancel_while_scheduled", "c13_drop_handles_while_scheduled",
       "c13_wake_during_poll_repolls_w1", "c13_wake_during_poll_repolls_w3x2", "c13_wake_during_poll_repolls_twice", "c13_wake_during_repoll", "c13_cancel_during_poll", "c13_wake_idle_schedules_once", "c13_waker_clone_drop_idle",
       "c13_cancel_idle_then_wake", "c13_completed_release", "c13_wake_by_value_idle", "c13_wake_by_value_only_handle",
       "c13_release_handles_in_winddown"]

SUBSETS = {
    "C13": ALL,
    "C05": ["c13_run_pending_from_scheduled", "c13_wake_during_poll_repolls_w1", "c13_wake_during_poll_repolls_w3x2", "c13_wake_during_poll_repolls_twice", "c13_wake_during_repoll", "c13_cancel_during_poll", "c13_wake_idle_schedules_once",
            "c13_cancel_while_scheduled"],
    "C19": ["c13_drop_runnable_scheduled", "c13_cancel_while_scheduled", "c13_cancel_idle_then_wake", "c13_run_or_drop_in_winddown",
            "c13_completed_release", "c13_drop_handles_while_scheduled", "c13_cancel_during_poll", "c13_run_last_owner",
            "c13_release_handles_in_winddown"],
}


def appends():
    d = os.path.join(C.VERIF, "harness", "kani", "appends")
    return {
        "src/executor/task.rs": open(os.path.join(d, "task.rs.txt")).read(),
        "src/executor/task/runnable.rs": open(os.path.join(d, "runnable.rs.txt")).read(),
        "src/executor.rs": open(os.path.join(d, "executor.rs.txt")).read(),
    }


def run_for(prop, tier, only=None):
    ev = C.Evidence(prop, tier)
    ev.cov["source_sha256"] = C.source_hashes(FILES)
    names = list(SUBSETS[prop])
    if only:
        names = [n for n in names if only in n]
    ev.cov["functions_encoded"] = ["executor::task::{spawn, Task::clone_waker/wake_by_ref/wake/drop_waker, raw_waker_vtable}",
                                   "executor::task::runnable::{run, cancel, Runnable::run, Runnable::drop}",
                                   "executor::task::cancel_token::{cancel, drop}", "executor::task::promise::{poll, drop}",
                                   "executor::task::util::{runnable_exists, RunOnDrop}"]
    ev.cov["bounds"] = {"state": "one real task; wake count 0..3, surplus references 0..2 (symbolic), CLOSED/POLLING per phase; "
                                 "future Ready at its 1st poll or Pending; <= 1 operation injected inside poll (wake x1/x2, cancel)",
                        "unwind": "4-5 (the re-poll loop of run(): <= 2 iterations + exit)",
                        "instantiation": "Task<Fut, fn(Runnable,()), ()> with a drop-counting unit future/output"}
    ev.cov["outside_claim"] = ["C11 memory orderings / stale loads (Kani executes sequentially: interleavings only at the points where another "
                               "party's operation is injected: before/after each operation and inside poll)",
                               "wake by value (needs a zero-sized scheduling function; see DESIGN.md)", "counter overflow guards (REF_CRITICAL/WAKE_CRITICAL)",
                               "histories are covered through the inductive argument (RI preserved by every operation), not enumerated"]
    ev.assumptions = ["RI as written in harness/kani/c13.rs", "Kani's sequential semantics of atomics", "no allocation failure",
                      "accessors appended under cfg(kani) to task.rs/runnable.rs in the overlay (read-only)"]

    def describe(n):
        return {"operation_from_RI_state": n}

    if only == "c11":
        rc = C.EXIT_OK
    else:
      rc, res = KP.run_kani_property(prop, tier, ev, modules=["c13"], harnesses=names, appends=appends(), describe=describe,
                                     role_of=lambda n: n, jobs=13, harness_timeout_s=600, work_key="kani-C13")
    if prop in ("C13", "C05") and (not only or only == "c11"):
        # part T (E3): the task state word under the C11 memory model - run || wake(+run), wake || wake
        from props import C13t
        from vlib import drvprop as DP
        work = C.WorkDir(f"mirse-{prop}")
        try:
            mir, src_root, _ = DP.dump_mir(work)
            if not mir:
                C.log(f"INCONCLUSIVE property={prop} build: MIR dump failed")
                rc = max(rc, C.EXIT_INCONCLUSIVE)
            else:
                ev.cov["engines"].append("mirse (MIR symbolic executor) + axc11 (axiomatic C11 release/acquire model over its atomic events, z3)")
                rt = C13t.run_part(ev, work, mir, src_root, tier, prop=prop)
                rc = C.EXIT_VIOLATION if C.EXIT_VIOLATION in (rc, rt) else max(rc, rt)
        finally:
            work.close()
        ev.cov["bounds"]["c11"] = ("E3: the real runnable::run and Task::wake_by_ref/wake from the MIR, one thread at a time, atomics on the state word as C11 "
                                   "events, the future as a non-atomic location; client programs: a scheduled task run by T0 || T1 publishes, wakes by "
                                   "reference and runs the Runnable it obtains; an idle task woken by two such threads (thorough: also the future "
                                   "completing at the runner's 2nd poll); <= 3 polls per thread, <= 1 CAS retry; no cancel / clone / drop of handles in these programs")
        ev.cov["outside_claim"][0] = ("C11 orderings of cancel / handle drops / wake by value / the output hand-over to the Promise (the E3 client programs "
                                      "cover run || wake_by_ref only); interleavings of the Kani part are at operation granularity (sequential atomics)")
        ev.assumptions += ["E3: the scheduling function hands the Runnable to the waking thread, which runs it itself (weakest hand-over: no extra "
                           "synchronisation); the future is an always-Pending script whose poll writes the non-atomic location F and reads the relaxed "
                           "atomics X_i; loads of the state word are restricted to POLLING set, CLOSED clear, constant reference count, wake count <= number "
                           "of wakes in the program (invariant of these programs)"]
    ev.write({0: "held on everything explored", 1: "violation", 2: "inconclusive"}[rc])
    return rc


def run(tier, only=None):
    return run_for(PROP, tier, only)


def replay(path, prop=PROP):
    import json
    cej = os.path.join(path, "counterexample.json")
    if os.path.exists(cej) and json.load(open(cej)).get("params", {}).get("e3") == "taskword":
        from props import C13t
        work = C.WorkDir(f"mirse-{prop}")
        try:
            rep = C13t.loom_replay(work, path)
        finally:
            work.close()
        if rep:
            C.log(f"VIOLATION property={prop} replay={path}")
            return C.EXIT_VIOLATION
        return C.EXIT_OK if rep is False else C.EXIT_INCONCLUSIVE
    from vlib import replay as R
    return R.replay_kani(prop, path)
