"""C13 — task lifecycle is safe under every interleaving of its handles (E1: Kani, one operation from an arbitrary RI state, SC)."""
import os

from vlib import common as C
from vlib import kaniprop as KP

PROP = "C13"
FILES = ["nexosim/src/executor/task.rs", "nexosim/src/executor/task/runnable.rs", "nexosim/src/executor/task/promise.rs",
         "nexosim/src/executor/task/cancel_token.rs", "nexosim/src/executor/task/util.rs"]

ALL = ["c13_run_pending_from_scheduled", "c13_run_ready_from_scheduled", "c13_run_last_owner", "c13_run_or_drop_in_winddown",
       "c13_drop_runnable_scheduled", "c13_cancel_while_scheduled", "c13_drop_handles_while_scheduled",
       "c13_wake_during_poll_repolls_w1", "c13_wake_during_poll_repolls_w3x2", "c13_wake_during_poll_repolls_twice", "c13_wake_during_repoll", "c13_cancel_during_poll", "c13_wake_idle_schedules_once", "c13_waker_clone_drop_idle",
       "c13_cancel_idle_then_wake", "c13_completed_release", "c13_wake_by_value_idle", "c13_wake_by_value_only_handle",
       "c13_release_handles_in_winddown"]

SUBSETS = {
    "C13": ALL,
    "C05": ["c13_run_pending_from_scheduled", "c13_wake_during_poll_repolls_w1", "c13_wake_during_poll_repolls_w3x2", "c13_wake_during_poll_repolls_twice", "c13_wake_during_repoll", "c13_cancel_during_poll", "c13_wake_idle_schedules_once",
            "c13_cancel_while_scheduled"],
    "C19": ["c13_drop_runnable_scheduled", "c13_cancel_while_scheduled", "c13_cancel_idle_then_wake", "c13_run_or_drop_in_winddown",
            "c13_completed_release", "c13_drop_handles_while_scheduled", "c13_cancel_during_poll", "c13_run_last_owner",
            "c13_release_handles_in_winddown"],
}


def appends():
    d = os.path.join(C.VERIF, "harness", "kani", "appends")
    return {
        "src/executor/task.rs": open(os.path.join(d, "task.rs.txt")).read(),
        "src/executor/task/runnable.rs": open(os.path.join(d, "runnable.rs.txt")).read(),
        "src/executor.rs": open(os.path.join(d, "executor.rs.txt")).read(),
    }


def run_for(prop, tier, only=None):
    ev = C.Evidence(prop, tier)
    ev.cov["source_sha256"] = C.source_hashes(FILES)
    names = list(SUBSETS[prop])
    if only:
        names = [n for n in names if only in n]
    ev.cov["functions_encoded"] = ["executor::task::{spawn, Task::clone_waker/wake_by_ref/wake/drop_waker, raw_waker_vtable}",
                                   "executor::task::runnable::{run, cancel, Runnable::run, Runnable::drop}",
                                   "executor::task::cancel_token::{cancel, drop}", "executor::task::promise::{poll, drop}",
                                   "executor::task::util::{runnable_exists, RunOnDrop}"]
    ev.cov["bounds"] = {"state": "one real task; wake count 0..3, surplus references 0..2 (symbolic), CLOSED/POLLING per phase; "
                                 "future Ready at its 1st poll or Pending; <= 1 operation injected inside poll (wake x1/x2, cancel)",
                        "unwind": "4-5 (the re-poll loop of run(): <= 2 iterations + exit)",
                        "instantiation": "Task<Fut, fn(Runnable,()), ()> with a drop-counting unit future/output"}
    ev.cov["outside_claim"] = ["C11 memory orderings / stale loads (Kani executes sequentially: interleavings only at the points where another "
                               "party's operation is injected: before/after each operation and inside poll)",
                               "wake by value (needs a zero-sized scheduling function; see DESIGN.md)", "counter overflow guards (REF_CRITICAL/WAKE_CRITICAL)",
                               "histories are covered through the inductive argument (RI preserved by every operation), not enumerated"]
    ev.assumptions = ["RI as written in harness/kani/c13.rs", "Kani's sequential semantics of atomics", "no allocation failure",
                      "accessors appended under cfg(kani) to task.rs/runnable.rs in the overlay (read-only)"]

    def describe(n):
        return {"operation_from_RI_state": n}

    rc, res = KP.run_kani_property(prop, tier, ev, modules=["c13"], harnesses=names, appends=appends(), describe=describe,
                                   role_of=lambda n: n, jobs=13, harness_timeout_s=600, work_key="kani-C13")
    ev.write({0: "held on everything explored", 1: "violation", 2: "inconclusive"}[rc])
    return rc


def run(tier, only=None):
    return run_for(PROP, tier, only)


def replay(path):
    from vlib import replay as R
    return R.replay_kani(PROP, path)
