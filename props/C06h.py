"""C06, part H — the idle/park hand-off of the in-flight message count on the multi-threaded executor (E3).

`run_local_worker` (every worker, from the top of its loop to its first `park`) and `Executor::run` (one call, at most
two idle checks) are executed from the real MIR, one thread at a time; atomics become C11 events (vlib/mirse/axc11.py).
Scenario: all workers are active and have finished every task (injector empty); worker i holds a symbolic thread-local
"sent minus received" count c_i with sum(c_i) == 0, i.e. every message that was sent has been processed.  Obligation:
no C11-consistent execution makes `Executor::run` return `Err(UnprocessedMessages(_))` or panic: the run may only
return Ok(()) (or keep waiting).
"""
import itertools
import json
import multiprocessing as mp
import os
import time

import z3

from vlib import common as C
from vlib.mirse import axc11 as AX
from vlib.mirse import interp as IN
from vlib.mirse.models import Models, deref_all, mk_dur, none, ok as m_ok, err as m_err
from vlib.mirse.values import Agg, Cell, I, Opaque, Ptr, unit

LABEL = "C06:no-false-report-at-idle-handoff"


class ThreadStop(Exception):
    """the thread blocks (park) or leaves the scenario (goes searching for tasks, CAS retry bound)"""

    def __init__(self, why):
        Exception.__init__(self, why)
        self.why = why


def ORD(n):
    return Agg("atomic::Ordering", [], variant=n)


def _ref(v, tag="t"):
    return Ptr(Cell(v, tag=tag), (), "ref")


def make_models():
    M = AX.install_models(Models(consts={"BUCKET_CAPACITY": lambda it: I(128, "usize")}))

    def catch_unwind(it, cal, args):
        clo = args[0]
        if isinstance(clo, Agg) and clo.name == "AssertUnwindSafe":
            clo = clo.fields[0]
        return m_ok(it.call_closure(clo, Agg("tuple", [])))

    def park(it, cal, args):
        p = deref_all(it, args[0])
        if p.data.get("who") == "executor":
            it.env["exec_parks"] = it.env.get("exec_parks", 0) + 1
            if it.env["exec_parks"] > it.env.get("max_exec_parks", 1):
                raise ThreadStop("executor parks again")
            # park() returns after an unpark(), which happens-before the return
            v = it.call("Atomic::<usize>::load", [it.env["exec_park"], ORD("Acquire")])
            it.assume(v.v == 1)
            return unit()
        raise ThreadStop("parked")

    def unpark(it, cal, args):
        u = deref_all(it, args[0])
        if u.data.get("who") == "executor":
            it.call("Atomic::<usize>::store", [it.env["exec_park"], I(1, "usize"), ORD("Release")])
        else:
            raise ThreadStop("re-activates a parked worker")
        return unit()

    def lk_replace(it, cal, args):
        # THREAD_MSG_COUNT.replace(0): the worker's thread-local count (symbolic), zero afterwards
        if it.env.get("folded"):
            return I(0, "isize")
        it.env["folded"] = True
        return it.sym(f"cnt{it.env['tid']}", "isize")

    def fetch_update(it, cal, args):
        # std: load, then compare_exchange_weak in a loop
        a, so, fo, f = args
        prev = it.call("Atomic::<usize>::load", [a, fo])
        for _ in range(it.env.get("cas_retries", 1) + 1):
            nxt = it.call_closure(f, Agg("tuple", [prev]))
            if nxt.variant != "Some":
                return m_err(prev)
            r = it.call("Atomic::<usize>::compare_exchange_weak", [a, prev, nxt.fields[0], so, fo])
            if r.variant == "Ok":
                return r
            prev = r.fields[0]
        raise ThreadStop("cut: CAS retry bound")

    def try_into(it, cal, args):
        v = args[0]
        if it.branch(it.binop("Ge", v, I(0, "isize")), "try_into"):
            return m_ok(I(v.v, "usize"))
        return m_err(Agg("TryFromIntError", [unit()]))

    def searching(it, cal, args):
        raise ThreadStop("cut: worker goes searching")

    M.extra.update({
        "std::panic::catch_unwind": catch_unwind, "catch_unwind": catch_unwind,
        "parking::Parker::park": park, "Parker::park": park, "parking::Unparker::unpark": unpark, "Unparker::unpark": unpark,
        "LocalKey::replace": lk_replace, "LocalKey::new": lambda it, cal, args: Opaque("LocalKey"),
        "Atomic::fetch_update": fetch_update, "<isize as TryInto>::try_into": try_into,
        "<ShuffledStealers as Iterator>::all": searching,
        "Instant::now": lambda it, cal, args: Opaque("Instant"),
    })
    return M


def build_shared_fn(P, nw):
    def build_shared(it):
        it.env["exec_park"] = _ref(it.call("AtomicUsize::new", [I(0, "usize")]), "execpark")
        stealers = Ptr(Cell(Agg("array", [Opaque("Stealer", who=i) for i in range(nw)]), tag="stealers"), (), "box")
        unparkers = Ptr(Cell(Agg("array", [Opaque("Unparker", who=i) for i in range(nw)]), tag="unparkers"), (), "box")
        pm = it.call_fn("PoolManager", None, "new", [I(nw, "usize"), stealers, unparkers])
        fields = C06_struct_fields(P, "nexosim/src/executor/mt_executor/pool_manager.rs", "PoolManager")
        aw = pm.fields[fields.index("active_workers")].meta["loc"]

        def dom(it_, loc, v):
            if loc == aw:
                # only the pool_size low bits are ever set (every write of the program preserves this)
                it_.assume(z3.ULT(v.v, 1 << nw))
                if it_.env.get("tid") == "x" and not it_.env.get("activated"):
                    # bound: the activation at the start of run() precedes the workers' deactivation attempts
                    it_.assume(v.v == (1 << nw) - 1)
        it.env["load_domain"] = dom
        inj = it.call_fn("Injector", None, "new", [])
        msg = it.call("AtomicIsize::new", [I(0, "isize")])
        cf = C06_struct_fields(P, "nexosim/src/executor/mt_executor.rs", "ExecutorContext")
        vals = dict(injector=inj, executor_id=I(7, "usize"), executor_unparker=Opaque("Unparker", who="executor"), pool_manager=pm, msg_count=msg)
        ctx = Agg("ExecutorContext", [vals[f] for f in cf])
        ctxp = Ptr(Cell(ctx, tag="ctx"), (), "arc")
        it.call_fn("PoolManager", None, "set_all_workers_active", [Ptr(ctxp.cell, (("f", cf.index("pool_manager")),), "ref")])
        abort = it.call_fn("Signal", None, "new", [])
        return dict(ctx=ctxp, abort=abort)
    return build_shared


def C06_struct_fields(P, fname, sname):
    from props.C06 import struct_fields
    return struct_fields(P, fname, sname)


def worker_body(P, wid, cas_retries):
    def body(it, sh):
        it.env["tid"] = wid
        it.env["cas_retries"] = cas_retries

        def stop(it_, fn, args):
            raise ThreadStop("cut: worker goes searching")
        it.fn_hooks = dict(it.fn_hooks or {})
        for n in P.find_def("PoolManager", None, "begin_worker_search"):
            it.fn_hooks[n] = stop
        wf = C06_struct_fields(P, "nexosim/src/executor/mt_executor.rs", "Worker")
        vals = dict(local_queue=Opaque("LocalQueue", who=wid), fast_slot=Agg("Cell", [none()]), executor_context=sh["ctx"])
        worker = Agg("Worker", [vals[f] for f in wf])
        try:
            it.call("run_local_worker", [_ref(worker, "worker"), I(wid, "usize"), Opaque("Parker", who=wid), sh["abort"]])
        except ThreadStop as e:
            return (e.why,)
        return ("returned",)
    return body


def exec_body(P, max_parks):
    def body(it, sh):
        it.env["tid"] = "x"
        it.env["max_exec_parks"] = max_parks

        def activated(it_, fn, args):
            it_.env["activated"] = True
        it.fn_hooks = dict(it.fn_hooks or {})
        for n in P.find_def("PoolManager", None, "pool_is_idle"):
            it.fn_hooks[n] = activated
        ef = C06_struct_fields(P, "nexosim/src/executor/mt_executor.rs", "Executor")
        vals = dict(context=sh["ctx"], active_tasks=Opaque("ActiveTasks"), parker=Opaque("Parker", who="executor"), worker_handles=Opaque("Handles"),
                    abort_signal=sh["abort"])
        ex = Agg("Executor", [vals[f] for f in ef])
        nm = [n for n in P.find_def("Executor", None, "run") if n.startswith("mt_executor::")]
        if len(nm) != 1:
            raise IN.Unsupported(f"mt_executor Executor::run not found ({nm})")
        try:
            r = it.exec_fn(P.get_fn(nm[0]), [_ref(ex, "executor"), mk_dur(0)])
        except ThreadStop as e:
            return (e.why,)
        return ("ret", r)
    return body


_G = {}


def _init(mir, src_root):
    _G["P"] = IN.Program(mir, src_root)


def _collect(P, nw, cas_retries, max_parks):
    threads, stats = [], []
    bs = build_shared_fn(P, nw)
    for w in range(nw):
        paths, st = AX.collect_thread(P, make_models, w, bs, worker_body(P, w, cas_retries), budget_s=300)
        threads.append(paths)
        stats.append(st)
    paths, st = AX.collect_thread(P, make_models, nw, bs, exec_body(P, max_parks), budget_s=300)
    threads.append(paths)
    stats.append(st)
    return threads, stats


def _shard(job):
    nw, cas_retries, max_parks, i, n = job
    P = _G["P"]
    try:
        threads, stats = _collect(P, nw, cas_retries, max_parks)
        init_locs = threads[0][0]["locs"]

        def constrain(ex, combo):
            cs = [z3.BitVec(f"cnt{w}", 64) for w in range(nw)]
            ex.s.add(sum(cs) == 0)

        def viol(ex, combo):
            if any(str(p["out"][0]).startswith("cut") for p in combo):
                return None   # outside the bound
            out = combo[-1]["out"]
            if out[0] != "ret":
                return None
            return [(LABEL, z3.BoolVal(out[1].variant != "Ok"))]
        # combinations with a cut thread are dropped up front
        keep = [[p for p in t if not str(p["out"][0]).startswith("cut")] for t in threads]
        res, info = AX.check_program(keep, init_locs, viol, shard=(i, n), constrain_fn=constrain, max_combos=10 ** 6)
        st = dict(paths=sum(s.paths for s in stats), steps=sum(s.steps for s in stats), funcs={}, thread_paths=[len(t) for t in threads],
                  kept=[len(t) for t in keep])
        for s in stats:
            for k, v in s.funcs.items():
                st["funcs"][k] = st["funcs"].get(k, 0) + v
        if res == "sat" and info.get("kind") == "thread-aborted":
            info["kind"] = LABEL
        return dict(res=res, info={k: (v if k != "values" else {a: int(b) if not isinstance(b, bool) else b for a, b in v.items()}) for k, v in info.items()},
                    stats=st, error=None)
    except IN.Unsupported as e:
        return dict(res="error", info={}, stats=None, error=str(e))


STRESS_SRC = os.path.join(C.VERIF, "harness", "native", "verif_c06_handoff.rs")


def stress_replay(work, d, seconds=240):
    """native replay: a source broadcasting to 6 sinks on 2 and 4 worker threads, every message processed in every step;
    any Err / panic of a step is the violation (schedule-dependent: repeated until the time budget is used)"""
    from vlib import scnprop as SP
    exe = SP.build_native_test(work, "verif_c06_handoff", STRESS_SRC)
    if not exe:
        return None
    import subprocess
    t0 = time.time()
    runs = 0
    log = []
    while time.time() - t0 < seconds:
        runs += 1
        try:
            p = subprocess.run([exe, "--nocapture", "--test-threads", "2"], env=C.env_offline({"C06_STRESS_STEPS": "150000"}), stdout=subprocess.PIPE,
                               stderr=subprocess.STDOUT, text=True, timeout=600)
            out = p.stdout
        except subprocess.TimeoutExpired:
            out = "timeout"
        bad = [l for l in out.splitlines() if "panicked" in l or "VERIF-FALSE-REPORT" in l or "TryFromIntError" in l]
        log.append(f"run {runs}: {'FAILED: ' + ' | '.join(bad[:3]) if bad else 'ok'}")
        if bad:
            open(os.path.join(d, "native_trace.txt"), "w").write("\n".join(log) + "\n")
            return True
    open(os.path.join(d, "native_trace.txt"), "w").write("\n".join(log) + "\n")
    return False


def run_part(ev, work, mir, src_root, tier):
    """returns exit code contribution"""
    progs = [(2, 1, 1)] if tier == "quick" else [(2, 1, 1), (2, 2, 1), (3, 1, 1)]
    rc = C.EXIT_OK
    nsh = 14
    for (nw, cas_retries, max_parks) in progs:
        t0 = time.time()
        with mp.Pool(nsh, initializer=_init, initargs=(mir, src_root)) as pool:
            results = pool.map(_shard, [(nw, cas_retries, max_parks, i, nsh) for i in range(nsh)], chunksize=1)
        desc = f"{nw} workers (run_local_worker up to the first park, <= {cas_retries} CAS retr{'y' if cas_retries == 1 else 'ies'}) + Executor::run (<= {max_parks + 1} idle checks)"
        errs = [r for r in results if r["error"]]
        if errs:
            C.log(f"[C06] hand-off {desc}: inconclusive: {errs[0]['error'][:400]}")
            ev.notes.append(f"hand-off inconclusive: {errs[0]['error'][:200]}")
            rc = max(rc, C.EXIT_INCONCLUSIVE)
            continue
        st0 = results[0]["stats"]
        ev.cov["states"] += st0["paths"]
        ev.cov["transitions"] += st0["steps"]
        q = sum(r["info"].get("queries", 0) for r in results)
        combos = sum(r["info"].get("combos", 0) for r in results)
        ev.cov["queries"] += q
        ev.cov["obligations"] += q
        ev.cov["solver_time_s"] += sum(r["info"].get("solver_s", 0) for r in results)
        ev.cov.setdefault("functions_encoded_handoff", sorted(k for k in st0["funcs"] if not k.endswith("]"))[:60])
        sat = [r for r in results if r["res"] == "sat"]
        sample = dict(scenario="idle hand-off (E3)", program=desc, thread_paths=st0["thread_paths"], path_combinations=combos, queries=q,
                      wall_s=round(time.time() - t0, 1), verdict="sat" if sat else "unsat")
        if not sat:
            ev.cov["discharged"] += q
            ev.add_sample(sample)
            C.log(f"[C06] hand-off {desc}: no C11-consistent execution yields a false report ({combos} path combinations, {q} queries, {time.time() - t0:.0f}s)")
            continue
        info = sat[0]["info"]
        C.log(f"[C06] hand-off {desc}: C11 execution with a false report / panic although every message was processed ({info.get('detail', info.get('outs'))}):")
        for l in info["events"]:
            C.log("     " + l)
        d = C.replay_dir("C06", f"handoff-w{nw}")
        json.dump(dict(property="C06", obligation=LABEL, program=desc, execution=info["events"], values=info.get("values"), outputs=info.get("outs"),
                       detail=info.get("detail")), open(os.path.join(d, "counterexample.json"), "w"), indent=1, default=str)
        open(os.path.join(d, "README.txt"), "w").write(
            f"C11 execution found by the solver for: {desc}.\nEvery message was processed (the workers' thread-local counts sum to 0) but Executor::run "
            f"reads the global count before every worker has folded its own: it returns UnprocessedMessages (reported as a false MessageLoss/Deadlock) or "
            f"panics on a negative count.\nNative replay: harness/native/verif_c06_handoff.rs (stress on 2 and 4 worker threads; native_trace.txt).\n"
            f"Re-run: ./check C06 --replay {d}\n")
        kf = C.known_finding_for("C06", LABEL)
        rep = stress_replay(work, d)
        if rep:
            if kf:
                C.log(f"KNOWN-FINDING: property=C06 {kf.get('what', LABEL)}")
            else:
                ev.violations += 1
                C.log(f"VIOLATION property=C06 replay={d}")
                rc = C.EXIT_VIOLATION
        else:
            C.log(f"INCONCLUSIVE property=C06 {LABEL}: the solver's execution was not reproduced by the native stress run ({rep}); witness kept in {d}")
            ev.notes.append(f"non-reproducing witness for {LABEL}")
            if rc != C.EXIT_VIOLATION:
                rc = max(rc, C.EXIT_INCONCLUSIVE)
        break
    return rc
