"""C07 — same-time events from one origin are processed in scheduling order (E2, executor picks tasks in any order)."""
import itertools

from vlib import drvprop as DP
from vlib.family import run_prop
from vlib.shapes import S, STEP, UNTIL, dedup, job

PROP = "C07"
GROUPS = {"C07"}


def shapes(tier):
    J = []
    kinds = ("once", "periodic", "keyed")
    # three actions, origin patterns with at least two sharing an origin; the environment runs spawned tasks in ANY order
    pats = [(0, 0, 0), (0, 0, 1), (0, 1, 0), (1, 0, 0), (0, 1, 1), (1, 1, 2), (1, 2, 1), (1, 2, 2), (2, 2, 2)]
    for pat in pats:
        for ks in itertools.product(("once", "periodic"), repeat=3):
            nper = sum(1 for k in ks if k == "periodic")
            for st in ([STEP], [UNTIL("abs")], [STEP, STEP]):
                if st[0]["op"] == "until" and nper > 1:
                    continue  # several series under step_until with permuted task order: path explosion; covered by step;step
                J.append(job([S(ks[0], 1, origin=pat[0]), S(ks[1], 2, origin=pat[1], dl="rel"), S(ks[2], 3, origin=pat[2])] + st,
                             permute=True, max_steps=2))
    # periodic series of one origin: the re-inserted occurrences keep their relative order
    for o in (0, 1):
        J.append(job([S("periodic", 1, origin=o), S("periodic", 2, origin=o), STEP, STEP, STEP], permute=True))
        J.append(job([S("periodic", 1, origin=o), S("once", 2, origin=o, dl="rel"), S("periodic", 3, origin=o), UNTIL("abs")], permute=True, max_steps=2))
    # coinciding same-origin actions whose sends have to suspend (full mailbox): every sub-future of the sequential future may
    # answer Pending once; all of them must still run, in order
    for o in (0, 1):
        for ks in (("once", "once", "once"), ("periodic", "once", "periodic"), ("once", "keyed", "once")):
            J.append(job([S(ks[0], 1, origin=o), S(ks[1], 2, origin=o), S(ks[2], 3, origin=o), STEP, STEP], permute=True, pending=True))
            J.append(job([S(ks[0], 1, origin=o), S(ks[1], 2, origin=o), S(ks[2], 3, origin=o), S("once", 4, origin=o), STEP],
                         pending=True, tie=[0, 1, 2, 3]))
            if "periodic" not in ks:
                J.append(job([S(ks[0], 1, origin=o), S(ks[1], 2, origin=o), S(ks[2], 3, origin=o), UNTIL("abs")], pending=True, max_steps=2))
    # keyed + handler-scheduled
    for k in kinds:
        eff = dict(op="sched", kind="once", dl="abs", id=3)
        J.append(job([S("once", 1, effect=eff), S(k, 2), STEP, STEP], permute=True))
    if tier == "thorough":
        for pat in itertools.product((0, 1), repeat=4):
            for st in ([STEP], [UNTIL("abs")]):
                J.append(job([S("once", 1, origin=pat[0]), S("periodic", 2, origin=pat[1]), S("once", 3, origin=pat[2], dl="rel"),
                              S("keyed", 4, origin=pat[3])] + st, permute=True, max_steps=2))
    return dedup(J)


def run(tier, only=None):
    return run_prop(PROP, GROUPS, tier, shapes(tier), {
        "shapes": "3 (thorough: 4) actions with every origin pattern over {global, model a, model b}, kinds one-shot/periodic/keyed, followed by "
                  "step / step_until / step;step; all deadlines symbolic so that every tie pattern is covered",
        "task_order": "the executor model runs the futures spawned for one step in EVERY order (environment choice), so same-origin order "
                      "can only hold through the SeqFuture built by the real step_to_next_bounded (its real poll is interpreted)",
    }, outside=["same *target model* is not modelled: the real code chains by origin regardless of target, and so does the check"],
        validate=0, only=only)


def replay(path):
    return DP.replay(PROP, path, GROUPS)
