"""C06 — deadlock / message-loss report is exact (E2, reduced scope: report mapping + observer registration)."""
import itertools
import json
import os
import re
import subprocess

import z3

from vlib import common as C
from vlib import scnprop as SP
from vlib.mirse.interp import Unsupported
from vlib.mirse.models import Models, deref_all, mk_dur, mk_time, none
from vlib.mirse.values import Agg, B, Cell, I, Opaque, Ptr, unit

PROP = "C06"
FILES = ["nexosim/src/simulation.rs", "nexosim/src/simulation/sim_init.rs", "nexosim/src/model/context.rs", "nexosim/src/channel.rs"]


def _ref(v, tag="t"):
    return Ptr(Cell(v, tag=tag), (), "ref")


def _s(x):
    """python string of a String/str token"""
    x = x
    if isinstance(x, Opaque) and x.tag in ("String", "str"):
        s = x.data["s"]
        return s[1:-1] if x.tag == "str" and s.startswith('"') else s
    raise Unsupported(f"not a string token: {x!r}")


def struct_fields(P, fname, sname):
    txt = "\n".join(P.file_lines(fname))
    m = re.search(r"struct\s+%s\s*(?:<[^{]*>)?\s*\{" % re.escape(sname), txt)
    if not m:
        raise Unsupported(f"struct {sname} not found in {fname}")
    depth, j = 0, m.end() - 1
    start = j
    while True:
        if txt[j] == "{":
            depth += 1
        elif txt[j] == "}":
            depth -= 1
            if depth == 0:
                break
        j += 1
    body = re.sub(r"//[^\n]*", "", txt[start + 1:j])
    body = re.sub(r"#\[[^\]]*\]", "", body)
    names = []
    d = 0
    cur = ""
    for ch in body:
        if ch in "(<[{":
            d += 1
        elif ch in ")>]}":
            d -= 1
        if ch == "," and d == 0:
            names.append(cur)
            cur = ""
        else:
            cur += ch
    if cur.strip():
        names.append(cur)
    out = []
    for f in names:
        mm = re.match(r"\s*(?:pub(?:\([^)]*\))?\s+)?(\w+)\s*:", f)
        if mm:
            out.append(mm.group(1))
    return out


def make_models():
    M = Models()

    def str_add(it, cal, args):
        return Opaque("String", s=_s(deref_all(it, args[0])) + _s(deref_all(it, args[1])))

    M.extra.update({
        "<String as Into>::into": lambda it, cal, args: args[0],
        "<&str as Into>::into": lambda it, cal, args: Opaque("String", s=_s(deref_all(it, args[0]))),
        "<String as ToString>::to_string": lambda it, cal, args: Opaque("String", s=_s(deref_all(it, args[0]))),
        "<String as Add>::add": str_add,
        "Receiver::observer": lambda it, cal, args: Opaque("TestObserver", mailbox=deref_all(it, args[0]).data["id"]),
        "Receiver::sender": lambda it, cal, args: Opaque("Sender", origin=deref_all(it, args[0]).data["id"] + 1),
        "Sender::channel_id": lambda it, cal, args: I(deref_all(it, args[0]).data["origin"], "usize"),
        "<Sender as Clone>::clone": lambda it, cal, args: deref_all(it, args[0]),
    })
    return M


def on_path_end(it, exc):
    """a panic or an unbounded loop inside model registration / the deadlock-report mapping is a violation, not a dropped path"""
    from vlib.mirse.interp import LoopBound, Violation
    kind = "C06:operation-returns" if isinstance(exc, LoopBound) else "C06:no-panic"
    vals = it.model_values() or {}
    v = Violation(kind, vals, list(it.trace), f"{it.env.get('witness')}: {exc}")
    v.witness = it.env.get("witness")
    it.violations.append(v)


def scenario_registration(it, params):
    """SimInit::add_model / simulation::add_model / BuildContext::add_submodel on a model hierarchy: every model of the bench
    (sub-models included) must get a mailbox observer under its fully qualified name."""
    tree = params["tree"]   # list of [name, parent index or -1]
    it.env["witness"] = dict(tree=tree)
    P = it.P
    spawned = []
    children = {i: [c for c, (_, p) in enumerate(tree) if p == i] for i in range(len(tree))}

    def mailbox(i):
        return Agg("Mailbox", [Opaque("Receiver", id=i)])

    def build(it_, cal, args):
        proto, cx = args
        i = proto.data["idx"]
        for c in children[i]:
            it_.call_fn("BuildContext", None, "add_submodel", [cx, Opaque("Proto", idx=c), mailbox(c), Opaque("String", s=tree[c][0])])
        return Opaque("ModelTok", idx=i)

    def spawn(it_, cal, args):
        spawned.append(args[1])
        return unit()

    it.models.extra.update({"<Proto as ProtoModel>::build": build, "Executor::spawn_and_forget": spawn,
                            "executor::Executor::spawn_and_forget": spawn})
    names = struct_fields(P, "nexosim/src/simulation/sim_init.rs", "SimInit")
    pq = it.call_fn("PriorityQueue", None, "new", [])
    tat = it.call_fn("TearableAtomicTime", None, "new", [mk_time(0)])
    vals = {
        "executor": Opaque("Executor"), "scheduler_queue": it.alloc(Agg("Mutex", [pq, B(False)]), tag="schedq", kind="arc"),
        "time": it.call_fn("SyncCell", None, "new", [tat]), "clock": it.alloc(Opaque("NoClock"), tag="clock", kind="box"),
        "clock_tolerance": none(), "timeout": mk_dur(0), "observers": Agg("Vec", []), "abort_signal": it.call_fn("Signal", None, "new", []),
        "model_names": Agg("Vec", []),
    }
    missing = [n for n in names if n not in vals]
    if missing or len(names) != len(vals):
        raise Unsupported(f"SimInit has fields the scenario does not know: {names}")
    init = Agg("SimInit", [vals[n] for n in names], meta=names)
    for i, (nm, par) in enumerate(tree):
        if par < 0:
            init = it.call_fn("SimInit", None, "add_model", [init, Opaque("Proto", idx=i), mailbox(i), Opaque("String", s=nm)])
    obs = init.fields[init.meta.index("observers")].fields
    mnames = [_s(x) for x in init.fields[init.meta.index("model_names")].fields]

    def qual(i):
        nm, par = tree[i]
        nm = nm if nm else "<unknown>"
        return nm if par < 0 else qual(par) + "." + nm

    expected = sorted(qual(i) for i in range(len(tree)))
    onames = []
    for o in obs:
        nm = _s(o.fields[0])
        ob = deref_all(it, o.fields[1])
        onames.append(nm)
        it.check(B(qual(ob.data["mailbox"]) == nm), "C06:observer-watches-the-named-model's-mailbox", f"observer registered as {nm!r} watches the mailbox of {qual(ob.data['mailbox'])!r}")
    it.check(B(sorted(mnames) == expected), "C06:names-fully-qualified", f"model names {sorted(mnames)} != {expected}")
    it.check(B(sorted(onames) == expected), "C06:every-model-has-an-observer",
             f"models without a mailbox observer: {sorted(set(expected) - set(onames))} (observers: {sorted(onames)})")
    it.check(B(len(spawned) == len(tree)), "C06:every-model-is-spawned", f"{len(spawned)} model tasks for {len(tree)} models")
    # C11 (attribution): the ModelId captured by each model task indexes that model's own qualified name
    names_v = init.fields[init.meta.index("model_names")].fields
    for fut in spawned:
        tok, mid = None, None

        def walk(v, depth=0):
            nonlocal tok, mid
            if depth > 6:
                return
            if isinstance(v, Opaque) and v.tag == "ModelTok":
                tok = v
            elif isinstance(v, Agg):
                if v.name == "ModelId" and mid is None:
                    mid = v.fields[0]
                for f in v.fields:
                    walk(f, depth + 1)
        walk(fut)
        if tok is None or mid is None:
            raise Unsupported(f"model task without model token / id: {fut!r}")
        k = mid.concrete()
        got = _s(names_v[k]) if k is not None and 0 <= k < len(names_v) else None
        it.check(B(got == qual(tok.data["idx"])), "C11:model-id-names-its-model",
                 f"failures of model {qual(tok.data['idx'])!r} would be attributed to {got!r}")
        if got != qual(tok.data["idx"]):
            it.env["witness"]["misattributed"] = tok.data["idx"]
    it.env["witness"]["missing"] = sorted(set(expected) - set(onames))


def scenario_mapping(it, params):
    """Simulation::run's mapping of ExecutorError::UnprocessedMessages(n) for k observers with symbolic mailbox lengths"""
    from vlib.mirse.simworld import SimWorld
    from vlib.mirse import driver as D
    k = params["k"]
    lens = [it.sym(f"len{i}", "usize") for i in range(k)]
    observers = [Agg("tuple", [Opaque("String", s=f"m{i}"), it.alloc(Opaque("TestObserver", len=lens[i]), tag="obs", kind="box")]) for i in range(k)]
    it.env["witness"] = dict(k=k)
    w = SimWorld(it, mk_time(0), names=[f"m{i}" for i in range(k)], observers=observers)
    n = it.sym("n", "usize")
    w.exec_fault = lambda wld: Agg("ExecutorError", [n], variant="UnprocessedMessages")
    r = w.process(w.action_once(1))
    it.check(B(r.variant == "Err"), "C06:unprocessed-is-an-error", "")
    if r.variant != "Err":
        return
    e = r.fields[0]
    nonzero = [z3.simplify(l.v != 0) for l in lens]
    if e.variant == "Deadlock":
        v = e.fields[0].fields
        it.check(z3.Or(nonzero) if nonzero else False, "C06:deadlock-only-with-a-nonempty-mailbox", "")
        # the report lists exactly the models with a non-empty mailbox, in registration order, with their exact size
        listed = [(_s(x.fields[0]), x.fields[1]) for x in v]
        pos = 0
        for i in range(k):
            if pos < len(listed) and listed[pos][0] == f"m{i}":
                it.check(lens[i].v != 0, "C06:deadlock-lists-only-nonempty", f"m{i}")
                it.check(listed[pos][1].v == lens[i].v, "C06:deadlock-exact-size", f"m{i}")
                pos += 1
            else:
                it.check(lens[i].v == 0, "C06:deadlock-lists-every-nonempty", f"m{i} has queued messages but is not reported")
        it.check(B(pos == len(listed)), "C06:deadlock-lists-only-known-models", "")
    elif e.variant == "MessageLoss":
        it.check(z3.Not(z3.Or(nonzero)) if nonzero else True, "C06:message-loss-only-when-all-observed-mailboxes-empty", "")
        it.check(e.fields[0].v == n.v, "C06:message-loss-count", "")
    else:
        it.check(False, "C06:unprocessed-maps-to-deadlock-or-loss", str(e.variant))
    it.check(w.is_terminated().v if hasattr(w.is_terminated(), "v") else w.is_terminated(), "C06:report-terminates", "")


def trees(max_models, max_depth):
    """all forests with <= max_models nodes and depth <= max_depth (names n0.., one empty name variant)"""
    out = []
    for n in range(1, max_models + 1):
        for parents in itertools.product(*[range(-1, i) for i in range(n)]):
            def depth(i):
                return 0 if parents[i] < 0 else 1 + depth(parents[i])
            if max(depth(i) for i in range(n)) > max_depth:
                continue
            out.append([[f"n{i}", parents[i]] for i in range(n)])
    # empty-name variants
    out.append([["", -1]])
    out.append([["p", -1], ["", 0]])
    return out


def _native(work, job, v, d):
    if job.get("scenario") != "scenario_registration":
        tree = [["m0", -1], ["m1", -1], ["c", 0]]
        targets = [[0], [1], [2]]
    else:
        tree = v["witness"]["tree"]
        targets = None
    exe = SP.build_native_test(work, "verif_c06", os.path.join(C.VERIF, "harness", "native", "verif_c06.rs"))
    if not exe:
        return None

    def qual(i):
        nm, par = tree[i]
        nm = nm if nm else "<unknown>"
        return nm if par < 0 else qual(par) + "." + nm

    bad = []
    log = []
    kind = "panic" if v["label"].startswith("C11:") else "deadlock"
    for i in (range(len(tree)) if targets is None else [t[0] for t in targets]):
        for threads in (1, 3):
            lines = [f"node {j} {p} {nm if nm else '_'}" for j, (nm, p) in enumerate(tree)] + [f"{kind} {i}", f"threads {threads}"]
            spath = os.path.join(d, f"script-{i}-{threads}.txt")
            open(spath, "w").write("\n".join(lines) + "\n")
            try:
                p = subprocess.run([exe, "--nocapture"], env=C.env_offline({"VERIF_SCRIPT": spath}), stdout=subprocess.PIPE,
                                   stderr=subprocess.STDOUT, text=True, timeout=60)
                out = p.stdout
            except subprocess.TimeoutExpired:
                out = "res Timeout"
            res = [l for l in out.splitlines() if l.startswith("res ")]
            want = f"res Deadlock {qual(i)}=1" if kind == "deadlock" else f"res Panic {qual(i)}"
            log.append(f"{kind} in {qual(i)!r} on {threads} thread(s): expected `{want}`, got {res}")
            if res != [want]:
                bad.append(i)
    open(os.path.join(d, "native_trace.txt"), "w").write("\n".join(log) + "\n")
    open(os.path.join(d, "README.txt"), "w").write(
        f"Counterexample for C06 ({v['label']}): {v['detail']}\nEach model of the hierarchy is made to dead-lock on a query loop-back "
        f"(harness/native/verif_c06.rs); native_trace.txt lists expected vs reported errors.\nRe-run: ./check C06 --replay {d}\n")
    return bool(bad)


def run(tier, only=None):
    ev = C.Evidence(PROP, tier)
    ev.cov["source_sha256"] = C.source_hashes(FILES)
    mm, md = (4, 3) if tier == "quick" else (5, 4)
    jobs = [dict(scenario="scenario_registration", params=dict(tree=t)) for t in trees(mm, md)]
    for k in range(0, 5 if tier == "quick" else 7):
        jobs.append(dict(scenario="scenario_mapping", params=dict(k=k)))
    # (d) the +-1 accounting inside the real send/recv coroutines: on the saturating message-plane benches a run in which every
    #     message was processed must not be reported as Deadlock / MessageLoss, for every task order
    from vlib import msgplane as MPL
    from vlib import msgprop as MP
    acct = []
    for b in MPL.benches(tier):
        if b["name"] in ("triangle-saturated", "two-producers", "diamond", "map-filter-volume", "fanout-forward"):
            jobs.append(dict(module="vlib.msgplane", scenario="scenario", loop_bound=60, budget_s=1500 if tier == "quick" else 5000,
                             params=dict(bench=b["bench"], driver=b["driver"], permute=b.get("permute", True), acyclic=True, name=b["name"])))
            acct.append(b["name"])
    if only:
        jobs = [j for j in jobs if only in j["scenario"] or only in j["params"].get("name", "")]
    msg_native = MP.make_native("C06")
    reg_native = _native

    def native(work, job, v, d):
        return msg_native(work, job, v, d) if job.get("module") == "vlib.msgplane" else reg_native(work, job, v, d)
    ev.cov["bounds"] = {"accounting": f"message-plane benches {acct} (real send/recv coroutines incl. THREAD_MSG_COUNT +-1, every task order, task-poll granularity)",
                        "hierarchies": f"every forest with <= {mm} models and depth <= {md} (+ empty names)",
                        "mapping": "0..4 (thorough: 6) observers with symbolic mailbox lengths and a symbolic unprocessed-message count"}
    ev.cov["outside_claim"] = ["the in-flight message counter (THREAD_MSG_COUNT +-1 inside coroutines, folding when workers park) and "
                               "therefore 'never a false report on any schedule or thread count'",
                               "Observer::len == number of held messages (that is C12's obligation)",
                               "ProtoModel::build is a script that adds the sub-models of the tree; model init/handlers are coroutines (opaque)"]
    rc = SP.run(PROP, tier, ev, "props.C06", jobs, native_replay=native, only_labels=("C06:", "C11:")) if jobs else C.EXIT_OK
    if not only or only == "handoff":
        # part H (E3): the idle/park hand-off of the in-flight message count on the multi-threaded executor
        from props import C06h
        from vlib import drvprop as DP
        work = C.WorkDir("mirse-C06")
        try:
            mir, src_root, _ = DP.dump_mir(work)
            if not mir:
                rc = max(rc, C.EXIT_INCONCLUSIVE)
            else:
                ev.cov["engines"].append("axc11 (axiomatic C11 release/acquire model over MIRSE events)")
                rh = C06h.run_part(ev, work, mir, src_root, tier)
                rc = C.EXIT_VIOLATION if C.EXIT_VIOLATION in (rc, rh) else max(rc, rh)
        finally:
            work.close()
        ev.cov["bounds"]["handoff"] = ("E3: 2 (thorough: 3) workers, each from the top of run_local_worker's loop to its first park with a symbolic "
                                       "thread-local count (sum 0), injector empty, <= 1 (thorough: 2) CAS retries; Executor::run with <= 2 idle checks; "
                                       "the activation at the start of run() precedes the deactivation attempts")
        ev.cov["outside_claim"][0] = ("THREAD_MSG_COUNT +-1 inside the send/recv coroutines; workers that are re-activated or find tasks during the hand-off; "
                                      "more than 3 workers")
    ev.write({0: "held on everything explored", 1: "violation", 2: "inconclusive"}[rc])
    return rc


def replay(path):
    ce = json.load(open(os.path.join(path, "counterexample.json")))
    if "bench" in ce.get("params", {}):
        from vlib import msgprop as MP
        return MP.replay(PROP, path)
    work = C.WorkDir("mirse-C06")
    try:
        if ce.get("obligation", "").endswith("idle-handoff"):
            from props import C06h
            ok = C06h.stress_replay(work, path)
            if ok:
                C.log(f"VIOLATION property={PROP} replay={path}")
                return C.EXIT_VIOLATION
            return C.EXIT_OK if ok is False else C.EXIT_INCONCLUSIVE
        ok = _native(work, dict(params=ce["params"], scenario=ce.get("scenario")), dict(witness=ce["witness"], vals=ce["values"], label=ce["obligation"], detail=ce["detail"]), path)
        if ok:
            C.log(f"VIOLATION property={PROP} replay={path}")
            return C.EXIT_VIOLATION
        return C.EXIT_OK if ok is False else C.EXIT_INCONCLUSIVE
    finally:
        work.close()
